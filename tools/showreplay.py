#!/venv/bin/python
import json, sys
sys.path.insert(0, '/verif')
from simphot.kernel import summarize
for p in sys.argv[1:]:
    d = json.load(open(p))
    print('==', p)
    print(' violation:', d['violation']['invariant'], d['violation']['subject'], d['violation']['detail'][:300])
    print(' cfg:', d['plan']['cfg'])
    print(' scene:', json.dumps(summarize(d['plan']['scene']))[:1500])
    for op in d['plan']['ops']:
        print('   op:', json.dumps(summarize(op))[:300])
