#!/bin/bash
# usage: seeded_regress.sh <PID> <budget> : re-run every kept seeded breakage of a property
PID=$1; BUD=${2:-50}
for D in /verif/seeded/$PID-*; do
  R=$(/verif/tools/run_seeded.sh $D $PID $BUD 2>&1 | grep -cE "^VIOLATION property=$PID")
  echo "$(basename $D): violations_reported=$R"
done
