#!/bin/bash
# Run the pinned baseline command and compare with BASELINE.json stable_pass.
# usage: baseline_check.sh [pytest-target ...]
OUT=${OUT:-/tmp/baseline_junit.xml}
cd ${ROOT:-/repo} && PYTHONPATH=${ROOT:-/repo} /venv/bin/python -m pytest -ra -q -p no:cacheprovider --timeout=900 --continue-on-collection-errors --junitxml=$OUT "$@" > /tmp/baseline_out.txt 2>&1
tail -3 /tmp/baseline_out.txt
/venv/bin/python - "$OUT" <<'PY'
import json, sys
import xml.etree.ElementTree as ET
base = json.load(open('/root/.vp/BASELINE.json'))
stable = set(base['stable_pass'])
root = ET.parse(sys.argv[1]).getroot()
passed, failed = set(), set()
for tc in root.iter('testcase'):
    name = f"{tc.get('classname')}::{tc.get('name')}"
    bad = any(ch.tag in ('failure', 'error') for ch in tc)
    skipped = any(ch.tag == 'skipped' for ch in tc)
    if bad: failed.add(name)
    elif not skipped: passed.add(name)
ran = passed | failed
print('ran', len(ran), 'passed', len(passed), 'failed', len(failed))
reg = sorted(n for n in failed if n in stable)
print('stable tests now failing:', len(reg))
for n in reg[:40]: print('  ', n)
missing = sorted(n for n in stable if n not in ran)
print('stable tests not run (expected when a target subset is given):', len(missing))
PY
