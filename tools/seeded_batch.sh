#!/bin/bash
# usage: seeded_batch.sh <PID> <budget> <dir> [dir ...]
PID=$1; BUD=$2; shift 2
for D in "$@"; do
  echo "######## $(basename $D)"
  /verif/tools/run_seeded.sh $D $PID $BUD 2>&1 | grep -E "^== demo|^exit|stable tests now|PATCH DOES NOT|^\[C..\] tier|VIOLATION|^  [a-z_]+\[|HARNESS" | cut -c1-260 | awk '/VIOLATION/{n++; if(n>3) next} {print}'
done
