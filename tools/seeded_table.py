#!/venv/bin/python
"""Regenerate the table of seeded breakages in DESIGN.md (section 10) from
seeded/*/meta.json.  The table is the block of lines starting with '| id |'
up to the first following line that does not start with '|'."""
import glob, json, os, re
root = os.path.dirname(os.path.dirname(os.path.abspath(__file__)))
metas = [json.load(open(f)) for f in glob.glob(root + '/seeded/*/meta.json')]


def key(m):
    mm = re.match(r'(C\d+)-(?:r(\d+)-)?(\d+)', m['id'])
    return (mm.group(1), int(mm.group(2) or 1), int(mm.group(3)))


metas.sort(key=key)
rows = ['| id | what it needs to manifest | result |', '|---|---|---|']
for m in metas:
    res = m['check_result'].replace('|', '/')
    rows.append(f"| {m['id']} | {m['needs_to_manifest'].replace('|', '/')} "
                f"| {res} |")
path = root + '/DESIGN.md'
lines = open(path).read().split('\n')
i = next(k for k, l in enumerate(lines) if l.startswith('| id | what it needs'))
j = i
while j < len(lines) and lines[j].startswith('|'):
    j += 1
lines[i:j] = rows
open(path, 'w').write('\n'.join(lines))
n = len(metas)
first = sum(1 for m in metas if 'as first written' in m['check_result']
            or m['check_result'].startswith('caught by') and 'MISSED' not in m['check_result'] and 'after' not in m['check_result'].split(':')[0])
print(n, 'rows;', 'per property:',
      {p: sum(1 for m in metas if m['property'] == p)
       for p in sorted({m['property'] for m in metas})})
