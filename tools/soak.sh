#!/bin/bash
# usage (inside vp run --with-repo): tools/soak.sh <seed> <ID> [ID ...]
# Runs thorough checks against the /repo snapshot in $VP_RUN_REPO (compiled
# extension modules are copied from /repo), evidence goes to ./soak-ev.
SEED=$1; shift
R=${VP_RUN_REPO:-/repo}
if [ "$R" != /repo ]; then
  (cd /repo && for f in $(find photutils -name "*.so") photutils/version.py; do cp /repo/$f $R/$f; done)
  export SIMPHOT_REPO=$R/photutils
fi
for P in "$@"; do
  VERIF_SEED=$SEED /venv/bin/python check run $P --tier thorough --workers ${SOAK_WORKERS:-8} --evidence-dir soak-ev 2>&1 | grep -E "^\[C|^VIOLATION|^KNOWN|^HARNESS|^  " | cut -c1-600
  echo "exit=$? for $P seed $SEED"
done
ls replays 2>/dev/null | head
