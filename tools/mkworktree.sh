#!/bin/bash
# usage: mkworktree.sh <dir>   - scratch worktree of /repo HEAD with the compiled extension modules copied in
set -e
D=$1
git -C /repo worktree add --detach -q "$D" HEAD
cd /repo
for f in $(find photutils -name "*.so") photutils/version.py; do
  cp "$f" "$D/$f"
done
echo "worktree $D ready; use: cd $D && PYTHONPATH=$D /venv/bin/python ..."
