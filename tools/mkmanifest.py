#!/venv/bin/python
"""Regenerate /verif/MANIFEST.json (kept valid at all times)."""
import json
import os
import sys

HERE = os.path.dirname(os.path.dirname(os.path.abspath(__file__)))

NA_REASON = ('pure function of its inputs in a single thread: the anchored '
             'code has no schedule, clock, I/O, fault, retry, cancellation or '
             'retained state for a simulator to control, so deterministic '
             'simulation cannot decide it (DESIGN.md section 4); ')
NA = {
    'C01': 'geometry kernels and bounding-box arithmetic; the only retained state (aperture _bbox memo) is history-relevant only under attribute reassignment, which is checked under C09',
    'C02': 'weighted sums per call; "one at a time vs many" compares two inputs, not two schedules',
    'C03': 'metamorphic relation between two inputs (translated / transposed scene)',
    'C04': 'connected-component labelling; its cache-agreement clause is exercised at step 0 of the C05 machine for detect_sources outputs but C04 itself is not claimed',
    'C07': 'per-label formulas over pixels',
    'C11': 'map from (image, configuration) to maps; bottleneck on/off is a configuration sweep',
    'C12': 'function of one call; the repeated-call clause is decided under C09',
    'C14': 'selection predicates over one image',
    'C15': 'representation sweep = input generation',
    'C16': 'statistics of a pixel set; the indexing behaviour of ApertureStats is decided under C08',
    'C17': 'per-cutout functions; "order of positions" permutes an input list, not a schedule',
    'C18': 'superposition of model evaluations',
    'C20': 'function of one fit; repeated fits on one Ellipse object are decided under C09',
}

CHECKS = {
    'C05': dict(
        design_ref='DESIGN.md 3.1',
        technique='deterministic simulation: seeded histories of mutators x cached-attribute reads x rejected calls on one SegmentationImage family, numpy reference model + fresh-object oracle after every step, ddmin-minimised replay',
        text='Seeded search over histories (not exhaustive): tens of thousands of short mutate/read/reject histories per minute, each checked after every step against an independent numpy label-array model and a freshly constructed SegmentationImage; a clean batch is evidence over the counted (cached-attribute set, mutator) signatures, not proof.',
        note='Trusted: numpy, scipy.ndimage.find_objects, rasterio/shapely (used on both sides of the fresh-object comparison; polygon count and geometry are also checked against per-label pixel sets). No exception is injected inside mutators (the property promises no atomicity).'),
    'C06': dict(
        design_ref='DESIGN.md 3.2',
        technique='deterministic simulation of the worker pool: discrete-event + adversarial schedules of a stubbed ProcessPoolExecutor/as_completed (real worker function on pickled copies), worker-crash and task-error fault injection, serial-path refinement oracle',
        text='Every scheduling decision of the simulated pool (worker start-up, service times, completion order, set-iteration order of already-finished futures, crash point) comes from the seed; results of every schedule are compared bit-for-bit with the serial path, refinement invariants are checked with an independent numpy model, and bounded liveness (returns after exactly n completion events) is asserted. Sampling of schedules, not enumeration.',
        note='The executor is a model of CPython 3.12 ProcessPoolExecutor (FIFO dispatch, BrokenProcessPool on every unfinished future, as_completed ordering); real: deblend_sources, _deblend_source, watershed, pickle transport. Unmodelled executor API use raises and is reported as a harness error, never as a pass.'),
    'C08': dict(
        design_ref='DESIGN.md 3.3',
        technique='deterministic simulation: seeded interleavings of property reads, indexing (5 index forms) and extra-property operations over a family of catalogs sharing storage; never-indexed fresh catalog as reference model',
        text='Seeded histories over parent/child/grandchild catalogs (SourceCatalog and ApertureStats): each observation is compared with the row-selected value of a never-indexed fresh catalog, and every extra-property operation is checked for isolation from all other family members.',
        note='Trusted: the never-indexed catalog as reference for per-row values (C07/C16 are not claimed), numpy selection semantics. Subset-vs-full floating values compared with rtol 1e-10.'),
    'C09': dict(
        design_ref='DESIGN.md 3.4',
        technique='deterministic simulation: seeded histories of reads / setter assignments / repeated calls on one object per class family, fresh-object-per-request oracle, rejected calls as faults',
        text='For seven object families the value of every request made after an arbitrary seeded history is compared exactly with the value a fresh object (deep-copied constructor arguments) returns for that single request; raises that a fresh object does not share are violations.',
        note='Trusted: deepcopy of constructor arguments yields an equivalent configuration; comparison is exact because both sides run the same code on the same numbers. Ellipse fits are few per batch (0.3 s each).'),
    'C10': dict(
        design_ref='DESIGN.md 3.5',
        technique='deterministic simulation: seeded programs of constructions, calls and lazy reads by several photutils objects over one pool of caller-owned buffers, buffer-digest invariant after every step, natural raises and tracer-injected MemoryError as faults',
        text='The simulated storage is the pool of caller-owned buffers; the invariant (bit-for-bit digest incl. dtype, strides, mask, unit) is evaluated after every step of a seeded multi-actor program, also after natural and injected exceptions. The entry-point matrix is workload breadth, not the deciding step.',
        note='Trusted: digests of numpy/astropy containers; objects the statement does not list (estimators, SigmaClip, WCS) and pure memo caches on caller objects are not digested. The alloc_fail tier runs under sys.settrace.'),
    'C13': dict(
        design_ref='DESIGN.md 3.6',
        technique='deterministic simulation: seeded histories of parameter assignment, evaluation and copy/deepcopy over a family of ImagePSF / GriddedPSFModel instances sharing caches; independent scipy spline/bilinear reference + fresh-model oracle',
        text='Decides the history clause ("independent of evaluation history") and the interpolation clauses for ImagePSF and GriddedPSFModel only: every evaluation after an arbitrary seeded history over model copies equals an independent RectBivariateSpline/bilinear reference and a freshly built model.',
        note='NOT decided here: normalisation / consistency of the analytic and pixel-integrated models (pure functions of parameters, no history; not a simulation target). Trusted: scipy RectBivariateSpline.'),
    'C19': dict(
        design_ref='DESIGN.md 3.7',
        technique='deterministic simulation: seeded interleavings of first reads, normalize/unnormalize and interpolator calls on one profile object, aperture-photometry reference model carrying the normalisation state',
        text='Every array read after every step of a seeded history is compared with a reference built one radius at a time from CircularAperture photometry scaled by the model normalisation state; constant-image, monotonicity and inverse-interpolator clauses are checked on the scenes that satisfy their premises.',
        note='Trusted: CircularAperture.do_photometry / area_overlap (the property defines profiles through them), numpy. rtol 1e-10.'),
}


def main():
    claimed = [c for c in CHECKS if os.path.exists(os.path.join(
        HERE, 'simphot', 'machines', MACH[c] + '.py'))]
    checks = []
    for pid in claimed:
        c = CHECKS[pid]
        checks.append({
            'property_id': pid,
            'quick_cmd': f'/venv/bin/python check run {pid} --tier quick',
            'thorough_cmd': f'/venv/bin/python check run {pid} --tier thorough',
            'evidence_file': f'/verif/evidence/{pid}.json',
            'replay_cmd_template': '/venv/bin/python check replay {path}',
            'engine': 'simphot',
            'level_claimed': {'category': 'exploration', 'text': c['text'],
                              'design_ref': c['design_ref']},
            'level_note': c['note'],
            'technique': c['technique'],
        })
    na = [{'property_id': k, 'reason': NA_REASON + v} for k, v in NA.items()]
    for pid in CHECKS:
        if pid not in claimed:
            na.append({'property_id': pid,
                       'reason': 'claimed in DESIGN.md but its machine is not '
                                 'implemented yet in this commit; no verdict '
                                 'is given for it'})
    man = {
        'version': 1,
        'setup_cmd': '/venv/bin/python check selftest --fast',
        'hooks': {
            'guard': 'PHOTUTILS_VERIF_SIM',
            'enable': 'no source hook exists: every seam is a module-level '
                      'name or the public API, patched in-process by '
                      '/verif/check (which sets PHOTUTILS_VERIF_SIM=1 for '
                      'itself only); /repo is imported through its editable '
                      'install, so checks always see the working tree',
            'baseline_off_cmd': 'cd /repo && /venv/bin/python -m pytest -ra -q '
                                '-p no:cacheprovider --timeout=900 '
                                '--continue-on-collection-errors',
            'source_commits': [],
            'add_only': True,
        },
        'engines': [{
            'name': 'simphot', 'path': '/verif/simphot',
            'serves_properties': claimed,
            'kind_free_text': 'deterministic simulator: one seed -> one plan '
                              '(scene + operation/fault history), executed '
                              'against real photutils with stubs at the '
                              'nondeterminism seams; ddmin shrinking; replay '
                              'files',
        }],
        'checks': checks,
        'not_applicable': sorted(na, key=lambda d: d['property_id']),
        'notes': 'See DESIGN.md. Exit codes: 0 held (KNOWN-FINDING lines for '
                 'listed findings), 1 VIOLATION, 2 harness error/timeout.',
    }
    with open(os.path.join(HERE, 'MANIFEST.json'), 'w') as fh:
        json.dump(man, fh, indent=1)
    print('claimed:', claimed)


MACH = {'C05': 'segm', 'C06': 'deblend', 'C08': 'catalog', 'C09': 'fresh',
        'C10': 'inputs', 'C13': 'psfmodel', 'C19': 'profile'}

if __name__ == '__main__':
    main()
