#!/venv/bin/python
"""keep_seeded.py <srcdir> <property> <status> <needs> [note]
Copy a confirmed seeded breakage into /verif/seeded/<id>/ with meta.json."""
import json, os, shutil, sys
src, prop, status, needs = sys.argv[1:5]
note = sys.argv[5] if len(sys.argv) > 5 else ''
sid = os.path.basename(src.rstrip('/'))
dst = os.path.join('/verif/seeded', sid)
os.makedirs(dst, exist_ok=True)
for f in ('patch.diff', 'demo.py', 'notes.md'):
    if os.path.exists(os.path.join(src, f)):
        shutil.copy(os.path.join(src, f), os.path.join(dst, f))
meta = {
    'id': sid, 'property': prop,
    'origin': 'written by a sub-agent that saw only the property text and a scratch worktree of /repo',
    'needs_to_manifest': needs,
    'confirmed': 'tools/run_seeded.sh: demo exits 0 on /repo, non-zero with the patch; existing tests of the touched sub-packages: no stable test fails with the patch; then the property check was run against the patched /repo and /repo restored',
    'check_result': status,
    'note': note,
}
json.dump(meta, open(os.path.join(dst, 'meta.json'), 'w'), indent=1)
print('kept', dst)
