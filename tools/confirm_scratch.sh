#!/bin/bash
# usage: confirm_scratch.sh <dir with patch.diff demo.py> ...
# Like run_seeded.sh (demo both ways, stable tests of the touched sub-packages)
# but in a scratch git worktree of /repo HEAD, so that /repo is not touched.
for D in "$@"; do
  W=$(mktemp -d /tmp/cfm-XXXX); rmdir $W
  /verif/tools/mkworktree.sh $W >/dev/null 2>&1
  echo "######## $(basename $D)"
  (cd /tmp && PYTHONPATH=/repo timeout 600 /venv/bin/python $D/demo.py >/dev/null 2>&1); echo "exit $?"
  if ! git -C $W apply $D/patch.diff 2>/dev/null; then echo "PATCH DOES NOT APPLY"; else
    (cd /tmp && PYTHONPATH=$W timeout 600 /venv/bin/python $D/demo.py >/dev/null 2>&1); echo "exit $?"
    SUBS=$(git -C $W diff --name-only | sed -n 's#^\(photutils/[a-z_]*\)/.*#\1#p' | sort -u | tr '\n' ' ')
    ROOT=$W OUT=/tmp/cfm_junit_$$.xml /verif/tools/baseline_check.sh $SUBS 2>&1 | grep "stable tests now"
  fi
  git -C /repo worktree remove --force $W; git -C /repo worktree prune
done
