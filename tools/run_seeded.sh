#!/bin/bash
# usage: run_seeded.sh <dir with patch.diff demo.py> <PID> [budget_s] [extra check args]
# Applies the patch to /repo, runs demo (both ways), the touched sub-packages'
# tests and the property's check, then restores /repo.
D=$1; PID=$2; BUD=${3:-40}; shift 3
cd /repo || exit 9
if [ -n "$(git status --porcelain --untracked-files=no)" ]; then echo "/repo not clean"; exit 9; fi
echo "== demo on unpatched tree"; (cd /tmp && PYTHONPATH=/repo timeout 600 /venv/bin/python $D/demo.py >/tmp/demo0.out 2>&1); echo "exit $?"
git apply --check $D/patch.diff || { echo "PATCH DOES NOT APPLY"; exit 8; }
git apply $D/patch.diff
trap 'git -C /repo checkout -- . ; echo "== /repo restored"' EXIT
echo "== files touched:"; git diff --stat | cat
echo "== demo on patched tree"; (cd /tmp && PYTHONPATH=/repo timeout 600 /venv/bin/python $D/demo.py >/tmp/demo1.out 2>&1); echo "exit $?"; tail -3 /tmp/demo1.out
SUBS=$(git diff --name-only | sed -n 's#^\(photutils/[a-z_]*\)/.*#\1#p' | sort -u | tr '\n' ' ')
echo "== existing tests in: $SUBS"
OUT=/tmp/seeded_junit.xml /verif/tools/baseline_check.sh $SUBS 2>&1 | tail -4
echo "== check $PID (budget $BUD)"
cd /verif && timeout 1800 /venv/bin/python check run $PID --budget $BUD --evidence-dir /tmp/ev-seeded "$@" 2>&1 | grep -E "^\[C|^VIOLATION|^KNOWN|^HARNESS|^  [a-z_]+\[" | cut -c1-400
