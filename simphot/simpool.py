"""Discrete-event model of CPython 3.12's ProcessPoolExecutor (C06).

The *real* worker function runs in-process, on unpickled copies of its
arguments, at the simulated completion time chosen by the schedule.  The
executor, the futures, ``as_completed``, the multiprocessing context and
``cpu_count`` are stubs driven by one ``Schedule`` object whose every choice
comes from the plan (no PRNG here: the machine turns seeds into schedules).

Facts modelled (concurrent/futures/process.py, 3.12.1):
* spawn context: one worker is spawned per ``submit`` until ``max_workers``
  exist (``_adjust_process_count``) unless an idle worker is available;
* work items are fed FIFO in submission order;
* a task's exception travels back and is re-raised by ``Future.result()``;
* when a worker dies abruptly every unfinished future (running or queued)
  gets ``BrokenProcessPool`` (``_terminate_broken``);
* ``as_completed`` first yields the futures already finished *in set order*
  (arbitrary), then the others in completion order;
* leaving the ``with`` block waits for all pending work (``shutdown(wait)``).

Anything outside the implemented API raises ``SimUnsupported`` so that an
unforeseen use of the executor surfaces as a HARNESS verdict, never as a
silent pass.
"""

from __future__ import annotations

import heapq
import pickle
from concurrent.futures.process import BrokenProcessPool


class SimUnsupported(Exception):
    """The code under test used an executor feature the model lacks."""


class SimDeadlock(Exception):
    """The caller waits for a future that no event can ever complete."""


PENDING, RUNNING, FINISHED, CANCELLED = 'PENDING', 'RUNNING', 'FINISHED', \
    'CANCELLED'


class SimFuture:
    def __init__(self, sim, index):
        self._sim = sim
        self.index = index
        self._state = PENDING
        self._result = None
        self._exception = None
        self._callbacks = []

    # --- API used by client code -------------------------------------
    def done(self):
        return self._state in (FINISHED, CANCELLED)

    def running(self):
        return self._state == RUNNING

    def cancelled(self):
        return self._state == CANCELLED

    def cancel(self):
        if self._state == PENDING and not self._sim.is_started(self):
            self._state = CANCELLED
            self._sim.on_cancel(self)
            return True
        return self._state == CANCELLED

    def result(self, timeout=None):
        if timeout is not None:
            raise SimUnsupported('result(timeout=...)')
        if not self.done():
            self._sim.run_until(lambda: self.done(), waiting_for=self)
        if self._state == CANCELLED:
            from concurrent.futures import CancelledError
            raise CancelledError()
        if self._exception is not None:
            raise self._exception
        return self._result

    def exception(self, timeout=None):
        if timeout is not None:
            raise SimUnsupported('exception(timeout=...)')
        if not self.done():
            self._sim.run_until(lambda: self.done(), waiting_for=self)
        return self._exception

    def add_done_callback(self, fn):
        if self.done():
            fn(self)
        else:
            self._callbacks.append(fn)

    # --- used by the simulator -----------------------------------------
    def _finish(self, result=None, exception=None):
        self._state = FINISHED
        self._result = result
        self._exception = exception
        cbs, self._callbacks = self._callbacks, []
        for cb in cbs:
            cb(self)

    def __hash__(self):
        return id(self)

    def __getattr__(self, name):
        if name.startswith('__'):
            raise AttributeError(name)
        raise SimUnsupported(f'Future.{name}')


class Schedule:
    """All scheduling decisions of one simulated pool, fixed in advance.

    Parameters (all plain JSON values so a schedule lives in a plan):
      mode          'des' (W-server queue) or 'adversary' (arbitrary order)
      startup       per-worker start-up delay [s]   (des)
      service       per-task service time [s]       (des)
      submit_cost   simulated main-thread time consumed by each submit (des)
      order         completion permutation           (adversary)
      head_perm     key list deciding the order in which futures already
                    finished when as_completed starts are yielded
      crash_at      None or k: the worker running the k-th started task dies
                    (at a fraction crash_frac of its service time)
      cpu_count     value returned by cpu_count()
    """

    def __init__(self, d):
        self.d = d
        self.mode = d.get('mode', 'des')
        self.startup = d.get('startup', [])
        self.service = d.get('service', [])
        self.submit_cost = d.get('submit_cost', 0.0)
        self.order = d.get('order', [])
        self.head_perm = d.get('head_perm', [])
        self.crash_at = d.get('crash_at')
        self.crash_frac = d.get('crash_frac', 0.5)
        self.cpu_count = d.get('cpu_count', 4)


class Sim:
    """One simulated pool instance (created by SimExecutor)."""

    def __init__(self, schedule: Schedule, max_workers, log,
                 initializer=None, initargs=()):
        self.s = schedule
        self.max_workers = max_workers
        # worker initializer: shipped to every worker process at start-up
        self.initializer = initializer
        self.initargs_blob = (pickle.dumps(tuple(initargs), protocol=4)
                              if initializer is not None else None)
        self.n_initialized = 0
        self.now = 0.0
        self.seq = 0
        self.heap = []            # (time, seq, kind, payload)
        self.tasks = []           # per index: dict(payload=bytes, future)
        self.queue = []           # FIFO of task indices not yet started
        self.workers = []         # dict(ready_at, busy, alive)
        self.started = []         # indices in start order
        self.completed = []       # indices in completion order
        self.broken = False
        self.shutdown = False
        self.log = log            # dict filled for the oracle / evidence
        self.log.setdefault('completion_order', [])
        self.log.setdefault('events', 0)
        self.log.setdefault('crash_fired', False)
        self.log.setdefault('makespan', 0.0)
        self.log.setdefault('n_submitted', 0)
        self.log.setdefault('n_workers', 0)
        self.log.setdefault('head_finished', 0)

    # --- event queue ----------------------------------------------------
    def _push(self, t, kind, payload):
        self.seq += 1
        heapq.heappush(self.heap, (t, self.seq, kind, payload))

    def is_started(self, fut):
        return fut.index in self.started

    def on_cancel(self, fut):
        if fut.index in self.queue:
            self.queue.remove(fut.index)

    # --- submission -------------------------------------------------------
    def submit(self, fn, args, kwargs):
        if self.shutdown:
            raise RuntimeError('cannot schedule new futures after shutdown')
        if self.broken:
            raise BrokenProcessPool('A child process terminated abruptly, '
                                    'the process pool is not usable anymore')
        idx = len(self.tasks)
        fut = SimFuture(self, idx)
        # transport: arguments cross the process boundary as pickles
        payload = pickle.dumps((fn, args, kwargs), protocol=4)
        self.tasks.append({'payload': payload, 'future': fut})
        self.queue.append(idx)
        self.log['n_submitted'] += 1
        if self.s.mode == 'des':
            # one worker spawned per submit until max_workers (no idle one)
            idle = any(w['alive'] and not w['busy']
                       and w['ready_at'] <= self.now for w in self.workers)
            if not idle and len(self.workers) < self.max_workers:
                k = len(self.workers)
                delay = (self.s.startup[k] if k < len(self.s.startup)
                         else 0.0)
                w = {'ready_at': self.now + delay, 'busy': False,
                     'alive': True, 'id': k}
                self.workers.append(w)
                self.log['n_workers'] = len(self.workers)
                self._push(w['ready_at'], 'worker_ready', k)
            self._dispatch()
            # the main thread spends time between submits: workers progress
            if self.s.submit_cost:
                self._advance_to(self.now + self.s.submit_cost)
        return fut

    def _dispatch(self):
        if self.s.mode != 'des' or self.broken:
            return
        for w in self.workers:
            if not self.queue:
                break
            if w['alive'] and not w['busy'] and w['ready_at'] <= self.now:
                idx = self.queue.pop(0)
                self._start(w, idx)

    def _run_initializer(self):
        """A simulated worker process starts: run its initializer (on a
        pickled copy of the arguments).  A raising initializer breaks the
        pool, as in CPython."""
        if self.initializer is None:
            return True
        self.n_initialized += 1
        self.log['initializer_runs'] = self.log.get('initializer_runs', 0) + 1
        try:
            self.initializer(*pickle.loads(self.initargs_blob))
            return True
        except BaseException as e:  # noqa: BLE001
            if isinstance(e, (KeyboardInterrupt, SystemExit, MemoryError)):
                raise
            self._break()
            return False

    def _start(self, w, idx):
        if not w.get('initialized'):
            w['initialized'] = True
            if not self._run_initializer():
                return
        w['busy'] = True
        fut = self.tasks[idx]['future']
        fut._state = RUNNING
        nth = len(self.started)
        self.started.append(idx)
        st = self.s.service[idx] if idx < len(self.s.service) else 1.0
        if self.s.crash_at is not None and nth == self.s.crash_at:
            self._push(self.now + st * self.s.crash_frac, 'crash',
                       (w['id'], idx))
        else:
            self._push(self.now + st, 'done', (w['id'], idx))

    # --- executing the real function ------------------------------------
    def _complete(self, idx):
        task = self.tasks[idx]
        fut = task['future']
        fn, args, kwargs = pickle.loads(task['payload'])
        try:
            res = fn(*args, **kwargs)
            blob = pickle.dumps(res, protocol=4)   # result transport
            res = pickle.loads(blob)
            exc = None
        except BaseException as e:  # noqa: BLE001 - shipped back like CPython
            if isinstance(e, (KeyboardInterrupt, SystemExit, MemoryError)):
                raise
            res, exc = None, e
            # the exception crosses the process boundary as well.  CPython:
            # if it cannot be pickled the worker sends the pickling error
            # instead; if it cannot be *un*pickled the executor's reader
            # thread fails and the whole pool is declared broken.
            try:
                blob = pickle.dumps(e, protocol=4)
            except BaseException as pe:  # noqa: BLE001
                exc, blob = pe, None
            if blob is not None:
                try:
                    exc = pickle.loads(blob)
                except BaseException:  # noqa: BLE001
                    self.log['events'] += 1
                    self.log['exception_unpicklable'] = True
                    self._break(injected=False)
                    return
        self.completed.append(idx)
        self.log['completion_order'].append(idx)
        self.log['events'] += 1
        self.log['makespan'] = self.now
        fut._finish(result=res, exception=exc)

    def _break(self, injected=True):
        """A worker died (injected fault), or the executor's reader thread
        failed on something the code under test sent: every unfinished
        future gets BrokenProcessPool."""
        self.broken = True
        if injected:
            self.log['crash_fired'] = True
        self.heap = [e for e in self.heap if e[2] not in ('done',
                                                          'worker_ready')]
        heapq.heapify(self.heap)
        for w in self.workers:
            w['alive'] = False
        self.queue = []
        for task in self.tasks:
            fut = task['future']
            if not fut.done():
                self.completed.append(fut.index)
                fut._finish(exception=BrokenProcessPool(
                    'A process in the process pool was terminated abruptly '
                    'while the future was running or pending.'))

    def _handle(self, kind, payload):
        if kind == 'worker_ready':
            self._dispatch()
        elif kind == 'done':
            wid, idx = payload
            self._complete(idx)
            self.workers[wid]['busy'] = False
            self._dispatch()
        elif kind == 'crash':
            self._break()

    def _advance_to(self, t):
        while self.heap and self.heap[0][0] <= t:
            tt, _, kind, payload = heapq.heappop(self.heap)
            self.now = max(self.now, tt)
            self._handle(kind, payload)
        self.now = max(self.now, t)

    def step(self) -> bool:
        """Process the next event; False if there is none."""
        if self.s.mode == 'adversary':
            return self._adv_step()
        if not self.heap:
            return False
        tt, _, kind, payload = heapq.heappop(self.heap)
        self.now = max(self.now, tt)
        self._handle(kind, payload)
        return True

    def _adv_step(self):
        # arbitrary completion order: next index of the permutation that is
        # still unfinished; a crash may be scheduled after k completions
        if self.broken:
            return False
        if (self.s.crash_at is not None
                and len(self.log['completion_order']) == self.s.crash_at
                and any(not t['future'].done() for t in self.tasks)):
            self._break()
            return True
        if self.initializer is not None and self.n_initialized == 0:
            for _ in range(max(1, min(self.max_workers, len(self.tasks)))):
                if not self._run_initializer():
                    return True
        for idx in self.s.order:
            if idx < len(self.tasks) and not self.tasks[idx]['future'].done():
                if idx in self.queue:
                    self.queue.remove(idx)
                self.now += 1.0
                self.started.append(idx)
                self._complete(idx)
                return True
        for task in self.tasks:   # indices missing from the permutation
            if not task['future'].done():
                self.now += 1.0
                self.started.append(task['future'].index)
                if task['future'].index in self.queue:
                    self.queue.remove(task['future'].index)
                self._complete(task['future'].index)
                return True
        return False

    def run_until(self, cond, waiting_for=None):
        guard = 0
        while not cond():
            if not self.step():
                raise SimDeadlock(f'waiting for {waiting_for and waiting_for.index}'
                                  ' but no event is pending')
            guard += 1
            if guard > 100000:
                raise SimDeadlock('event budget exhausted')

    def drain(self):
        while any(not t['future'].done() for t in self.tasks):
            if not self.step():
                raise SimDeadlock('shutdown(wait=True) with unfinishable '
                                  'futures')


class SimPoolFactory:
    """Builds the stub callables that replace the names imported by
    photutils.segmentation.deblend."""

    def __init__(self, schedule_dict):
        self.schedule = Schedule(schedule_dict)
        self.log = {}
        self.sims = []
        self.api_calls = {}

    def _count(self, name):
        self.api_calls[name] = self.api_calls.get(name, 0) + 1

    # get_context('spawn')
    def get_context(self, method=None):
        self._count('get_context')
        if method not in (None, 'spawn', 'forkserver', 'fork'):
            raise ValueError(f'cannot find context for {method!r}')
        return ('sim-context', method)

    def cpu_count(self):
        self._count('cpu_count')
        return self.schedule.cpu_count

    def ProcessPoolExecutor(self, max_workers=None, mp_context=None,
                            initializer=None, initargs=(), **kw):
        self._count('ProcessPoolExecutor')
        if kw:
            raise SimUnsupported(f'executor options {kw!r}')
        if initializer is not None and not callable(initializer):
            raise TypeError('initializer must be a callable')
        if max_workers is None:
            max_workers = self.schedule.cpu_count
        if not isinstance(max_workers, int) or isinstance(max_workers, bool):
            try:
                import operator
                max_workers = operator.index(max_workers)
            except TypeError:
                raise TypeError('max_workers must be an integer') from None
        if max_workers <= 0:
            raise ValueError('max_workers must be greater than 0')
        sim = Sim(self.schedule, max_workers, self.log,
                  initializer=initializer, initargs=initargs)
        self.sims.append(sim)
        return SimExecutor(sim, self)

    def as_completed(self, fs, timeout=None):
        self._count('as_completed')
        if timeout is not None:
            raise SimUnsupported('as_completed(timeout=...)')
        fs = list(dict.fromkeys(fs))   # duplicates returned once
        return self._as_completed(fs)

    def _as_completed(self, fs):
        if not fs:
            return
        sim = fs[0]._sim
        finished = [f for f in fs if f.done()]
        sim.log['head_finished'] += len(finished)
        # set iteration order is arbitrary: order by the schedule's keys
        keys = self.schedule.head_perm
        finished.sort(key=lambda f: (keys[f.index % len(keys)] if keys
                                     else f.index, f.index))
        yielded = set()
        for f in finished:
            yielded.add(f)
            yield f
        pending = [f for f in fs if f not in yielded]
        while pending:
            ready = [f for f in pending if f.done()]
            if not ready:
                if not sim.step():
                    raise SimDeadlock('as_completed waits but no event is '
                                      'pending')
                continue
            # completion order
            pos = {idx: k for k, idx in enumerate(sim.completed)}
            ready.sort(key=lambda f: pos.get(f.index, 1 << 30))
            for f in ready:
                pending.remove(f)
                yield f


class SimExecutor:
    def __init__(self, sim, factory):
        self._sim = sim
        self._factory = factory

    def submit(self, fn, /, *args, **kwargs):
        self._factory._count('submit')
        return self._sim.submit(fn, args, kwargs)

    def map(self, fn, *iterables, timeout=None, chunksize=1):
        self._factory._count('map')
        if timeout is not None or chunksize != 1:
            raise SimUnsupported('map(timeout/chunksize)')
        futs = [self.submit(fn, *a) for a in zip(*iterables)]

        def gen():
            for f in futs:
                yield f.result()
        return gen()

    def shutdown(self, wait=True, *, cancel_futures=False):
        self._factory._count('shutdown')
        if cancel_futures:
            for t in self._sim.tasks:
                t['future'].cancel()
        if wait:
            self._sim.drain()
        self._sim.shutdown = True

    def __enter__(self):
        return self

    def __exit__(self, exc_type, exc, tb):
        self.shutdown(wait=True)
        return False

    def __getattr__(self, name):
        if name.startswith('__'):
            raise AttributeError(name)
        raise SimUnsupported(f'Executor.{name}')


class installed:
    """Context manager: route photutils.segmentation.deblend through the
    simulated pool described by ``schedule_dict``."""

    NAMES = ('ProcessPoolExecutor', 'as_completed', 'get_context',
             'cpu_count')

    def __init__(self, schedule_dict):
        self.factory = SimPoolFactory(schedule_dict)

    def __enter__(self):
        import photutils.segmentation.deblend as mod
        self.mod = mod
        self.saved = {n: getattr(mod, n) for n in self.NAMES}
        for n in self.NAMES:
            setattr(mod, n, getattr(self.factory, n))
        return self.factory

    def __exit__(self, *exc):
        for n, v in self.saved.items():
            setattr(self.mod, n, v)
        return False
