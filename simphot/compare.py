"""Structural comparison and digests of photutils / astropy values.

``diff(a, b, rtol, atol)`` returns ``None`` when the two values agree and a
short path-qualified message otherwise.  With ``rtol == atol == 0`` floating
values are compared bit-for-bit (NaN == NaN, -0.0 != 0.0 is *not* demanded:
equality is numeric with NaNs in the same places, plus same dtype/shape).
"""

from __future__ import annotations

import hashlib

import numpy as np

try:  # optional imports resolved lazily; all present in /venv
    import astropy.units as u
    from astropy.coordinates import SkyCoord
    from astropy.table import Table
except Exception:  # pragma: no cover
    u = None
    SkyCoord = None
    Table = None


def _is_num_array(a):
    return isinstance(a, np.ndarray) and a.dtype.kind in 'biufc'


def _arr_diff(a, b, rtol, atol, path, check_dtype=True):
    if a.shape != b.shape:
        return f'{path}: shape {a.shape} != {b.shape}'
    if check_dtype and a.dtype != b.dtype:
        return f'{path}: dtype {a.dtype} != {b.dtype}'
    if a.dtype.kind == 'O' or b.dtype.kind == 'O':
        for idx in np.ndindex(a.shape):
            d = diff(a[idx], b[idx], rtol, atol, f'{path}{list(idx)}')
            if d:
                return d
        return None
    if a.dtype.kind in 'SUV' or b.dtype.kind in 'SUV':
        if not np.array_equal(a, b):
            return f'{path}: arrays differ'
        return None
    if a.size == 0:
        return None
    if a.dtype.kind in 'fc' or b.dtype.kind in 'fc':
        na, nb = np.isnan(a), np.isnan(b)
        if not np.array_equal(na, nb):
            k = np.argwhere(na != nb)[0]
            return (f'{path}: NaN pattern differs at {tuple(k)} '
                    f'({a[tuple(k)]!r} vs {b[tuple(k)]!r})')
        aa = np.where(na, 0, a)
        bb = np.where(nb, 0, b)
        if rtol == 0 and atol == 0:
            ok = aa == bb
        else:
            ia, ib = np.isinf(aa), np.isinf(bb)
            with np.errstate(all='ignore'):
                ok = np.where(ia | ib, aa == bb,
                              np.abs(aa - bb) <= atol + rtol * np.abs(bb))
        if not np.all(ok):
            k = tuple(np.argwhere(~np.asarray(ok))[0]) if a.ndim else ()
            va = a[k] if a.ndim else a
            vb = b[k] if b.ndim else b
            return f'{path}: value differs at {k}: {va!r} vs {vb!r}'
        return None
    if not np.array_equal(a, b):
        k = tuple(np.argwhere(a != b)[0]) if a.ndim else ()
        return f'{path}: value differs at {k}: {a[k]!r} vs {b[k]!r}'
    return None


def diff(a, b, rtol=0.0, atol=0.0, path='', check_dtype=True):
    """None if equal, else a message."""
    # Raised wrappers
    from simphot.kernel import Raised
    if isinstance(a, Raised) or isinstance(b, Raised):
        if isinstance(a, Raised) and isinstance(b, Raised):
            if a.type != b.type:
                return f'{path}: raised {a.type} vs {b.type}'
            return None
        return f'{path}: {a!r} vs {b!r}'
    if a is None or b is None:
        if a is None and b is None:
            return None
        return f'{path}: {type(a).__name__} vs {type(b).__name__}'
    # masked arrays
    if isinstance(a, np.ma.MaskedArray) or isinstance(b, np.ma.MaskedArray):
        if not (isinstance(a, np.ma.MaskedArray)
                and isinstance(b, np.ma.MaskedArray)):
            return f'{path}: masked vs non-masked'
        ma = np.ma.getmaskarray(a)
        mb = np.ma.getmaskarray(b)
        d = _arr_diff(ma, mb, 0, 0, path + '.mask')
        if d:
            return d
        da = np.ma.getdata(a)
        db = np.ma.getdata(b)
        if da.shape != db.shape:
            return f'{path}: shape {da.shape} != {db.shape}'
        if hasattr(da, 'unit') or hasattr(db, 'unit'):
            return diff(da, db, rtol, atol, path + '.data', check_dtype)
        if da.dtype.kind in 'biufc' and db.dtype.kind in 'biufc':
            da = np.where(ma, 0, da)
            db = np.where(mb, 0, db)
        return _arr_diff(np.asarray(da), np.asarray(db), rtol, atol,
                         path + '.data', check_dtype)
    # quantities
    if u is not None and (isinstance(a, u.Quantity)
                          or isinstance(b, u.Quantity)):
        if not (isinstance(a, u.Quantity) and isinstance(b, u.Quantity)):
            return (f'{path}: Quantity vs {type(b).__name__}'
                    if isinstance(a, u.Quantity)
                    else f'{path}: {type(a).__name__} vs Quantity')
        if a.unit != b.unit:
            return f'{path}: unit {a.unit} != {b.unit}'
        return _arr_diff(np.asarray(a.value), np.asarray(b.value), rtol,
                         atol, path, check_dtype)
    if SkyCoord is not None and (isinstance(a, SkyCoord)
                                 or isinstance(b, SkyCoord)):
        if not (isinstance(a, SkyCoord) and isinstance(b, SkyCoord)):
            return f'{path}: SkyCoord vs other'
        if a.frame.name != b.frame.name:
            return f'{path}: frame differs'
        fa = np.asarray(a.spherical.lon.deg)
        fb = np.asarray(b.spherical.lon.deg)
        d = _arr_diff(fa, fb, rtol, atol, path + '.lon')
        if d:
            return d
        return _arr_diff(np.asarray(a.spherical.lat.deg),
                         np.asarray(b.spherical.lat.deg), rtol, atol,
                         path + '.lat')
    if Table is not None and (isinstance(a, Table) or isinstance(b, Table)):
        if not (isinstance(a, Table) and isinstance(b, Table)):
            return f'{path}: Table vs other'
        if a.colnames != b.colnames:
            return f'{path}: colnames {a.colnames} != {b.colnames}'
        if len(a) != len(b):
            return f'{path}: table length {len(a)} != {len(b)}'
        for name in a.colnames:
            ca, cb = a[name], b[name]
            if isinstance(ca, u.Quantity) or isinstance(cb, u.Quantity):
                d = diff(ca, cb, rtol, atol, f'{path}[{name}]')
            elif isinstance(ca, SkyCoord):
                d = diff(ca, cb, rtol, atol, f'{path}[{name}]')
            else:
                ua = getattr(ca, 'unit', None)
                ub = getattr(cb, 'unit', None)
                if ua != ub:
                    return f'{path}[{name}]: unit {ua} != {ub}'
                va = (np.ma.asarray(ca) if hasattr(ca, 'mask')
                      else np.asarray(ca))
                vb = (np.ma.asarray(cb) if hasattr(cb, 'mask')
                      else np.asarray(cb))
                d = diff(va, vb, rtol, atol, f'{path}[{name}]')
            if d:
                return d
        return None
    if isinstance(a, np.ndarray) or isinstance(b, np.ndarray):
        if not (isinstance(a, np.ndarray) and isinstance(b, np.ndarray)):
            if isinstance(a, (np.generic, int, float, bool)) or isinstance(
                    b, (np.generic, int, float, bool)):
                return _arr_diff(np.asarray(a), np.asarray(b), rtol, atol,
                                 path, check_dtype)
            return (f'{path}: {type(a).__name__} vs {type(b).__name__}')
        return _arr_diff(a, b, rtol, atol, path, check_dtype)
    if isinstance(a, (np.generic,)) or isinstance(b, (np.generic,)):
        return _arr_diff(np.asarray(a), np.asarray(b), rtol, atol, path,
                         check_dtype and isinstance(a, np.generic)
                         and isinstance(b, np.generic))
    if isinstance(a, bool) or isinstance(b, bool):
        return None if a == b else f'{path}: {a!r} != {b!r}'
    if isinstance(a, (int, float, complex)) and isinstance(
            b, (int, float, complex)):
        return _arr_diff(np.asarray(a), np.asarray(b), rtol, atol, path,
                         False)
    if isinstance(a, str) or isinstance(b, str):
        return None if a == b else f'{path}: {a!r} != {b!r}'
    if isinstance(a, slice) and isinstance(b, slice):
        ta = (a.start, a.stop, a.step)
        tb = (b.start, b.stop, b.step)
        return None if ta == tb else f'{path}: {a} != {b}'
    if isinstance(a, dict) and isinstance(b, dict):
        ka = sorted(a.keys(), key=repr)
        kb = sorted(b.keys(), key=repr)
        if [repr(k) for k in ka] != [repr(k) for k in kb]:
            return f'{path}: dict keys {ka} != {kb}'
        for k1, k2 in zip(ka, kb):
            d = diff(a[k1], b[k2], rtol, atol, f'{path}[{k1!r}]',
                     check_dtype)
            if d:
                return d
        return None
    if isinstance(a, (list, tuple)) and isinstance(b, (list, tuple)):
        if len(a) != len(b):
            return f'{path}: length {len(a)} != {len(b)}'
        for i, (x, y) in enumerate(zip(a, b)):
            d = diff(x, y, rtol, atol, f'{path}[{i}]', check_dtype)
            if d:
                return d
        return None
    if isinstance(a, (list, tuple)) != isinstance(b, (list, tuple)):
        return f'{path}: {type(a).__name__} vs {type(b).__name__}'
    # photutils objects
    ca, cb = plain(a), plain(b)
    if ca is not a or cb is not b:
        return diff(ca, cb, rtol, atol, path, check_dtype)
    if type(a) is not type(b):
        return f'{path}: type {type(a).__name__} vs {type(b).__name__}'
    try:
        same = a == b
        if isinstance(same, np.ndarray):
            same = bool(np.all(same))
    except Exception:  # noqa: BLE001
        same = False
    return None if same else f'{path}: {a!r} != {b!r}'


_APER_PARAMS = ('positions', 'r', 'r_in', 'r_out', 'a', 'b', 'a_in', 'a_out',
                'b_in', 'b_out', 'w', 'h', 'w_in', 'w_out', 'h_in', 'h_out',
                'theta')


def plain(o):
    """Reduce photutils / shapely objects to plain comparable structures;
    returns ``o`` itself when it is not a recognised object."""
    cls = type(o).__name__
    mod = type(o).__module__ or ''
    if cls == 'BoundingBox' and mod.startswith('photutils'):
        return ('BoundingBox', int(o.ixmin), int(o.ixmax), int(o.iymin),
                int(o.iymax))
    if mod.startswith('photutils.aperture') and hasattr(o, '_params'):
        out = {'class': cls}
        for p in o._params:
            v = getattr(o, p)
            out[p] = v
        return out
    if mod.startswith('shapely'):
        return ('shapely', o.geom_type, o.wkb_hex)
    if cls == 'Segment' and mod.startswith('photutils'):
        return {'class': 'Segment', 'label': o.label, 'slices': o.slices,
                'bbox': o.bbox, 'area': o.area, 'polygon': o.polygon,
                'data': o.data}
    if cls == 'ApertureMask':
        return {'class': 'ApertureMask', 'data': np.asarray(o.data),
                'bbox': o.bbox}
    if cls == 'CutoutImage':
        return {'class': 'CutoutImage', 'data': np.asarray(o.data),
                'bbox_original': o.bbox_original,
                'slices_original': o.slices_original}
    if cls == 'SegmentationImage':
        return {'class': 'SegmentationImage', 'data': o.data,
                'map': {int(k): np.asarray(v)
                        for k, v in o._deblend_label_map.items()}}
    if cls == 'ListedColormap':
        return ('cmap', np.asarray(o.colors))
    return o


def digest(o) -> str:
    """Short stable digest of a value (for traces)."""
    h = hashlib.sha256()
    _feed(h, o)
    return h.hexdigest()[:16]


def _feed(h, o):
    from simphot.kernel import Raised
    if isinstance(o, Raised):
        h.update(b'raised:' + o.type.encode())
        return
    if o is None:
        h.update(b'None')
        return
    if isinstance(o, np.ma.MaskedArray):
        m = np.ma.getmaskarray(o)
        d = np.ma.getdata(o)
        h.update(b'ma')
        _feed(h, m)
        if hasattr(d, 'unit'):
            d = d.value
        d = np.asarray(d)
        if d.dtype.kind in 'biufc':
            d = np.where(m, 0, d)
        _feed(h, d)
        return
    if u is not None and isinstance(o, u.Quantity):
        h.update(b'q' + str(o.unit).encode())
        _feed(h, np.asarray(o.value))
        return
    if SkyCoord is not None and isinstance(o, SkyCoord):
        h.update(b'sky' + o.frame.name.encode())
        _feed(h, np.asarray(o.spherical.lon.deg))
        _feed(h, np.asarray(o.spherical.lat.deg))
        return
    if Table is not None and isinstance(o, Table):
        h.update(b'tbl')
        for name in o.colnames:
            h.update(name.encode())
            c = o[name]
            if isinstance(c, (u.Quantity, SkyCoord)):
                _feed(h, c)
            else:
                _feed(h, np.ma.asarray(c) if hasattr(c, 'mask')
                      else np.asarray(c))
        return
    if isinstance(o, np.ndarray):
        h.update(str(o.dtype).encode() + str(o.shape).encode())
        if o.dtype.kind == 'O':
            for x in o.ravel():
                _feed(h, x)
        else:
            a = np.ascontiguousarray(o)
            if a.dtype.kind in 'fc':
                a = np.where(np.isnan(a), np.nan, a) + 0.0  # canonical nan/-0
            h.update(a.tobytes())
        return
    if isinstance(o, np.generic):
        _feed(h, np.asarray(o))
        return
    if isinstance(o, (bool, int, str)):
        h.update(repr(o).encode())
        return
    if isinstance(o, float):
        _feed(h, np.asarray(o))
        return
    if isinstance(o, slice):
        h.update(repr((o.start, o.stop, o.step)).encode())
        return
    if isinstance(o, dict):
        h.update(b'{')
        for k in sorted(o.keys(), key=repr):
            h.update(repr(k).encode())
            _feed(h, o[k])
        h.update(b'}')
        return
    if isinstance(o, (list, tuple)):
        h.update(b'[')
        for x in o:
            _feed(h, x)
            h.update(b',')
        h.update(b']')
        return
    p = plain(o)
    if p is not o:
        _feed(h, p)
        return
    h.update(type(o).__name__.encode())


def buffer_digest(o) -> str:
    """Bit-for-bit digest of a caller-owned buffer: bytes, dtype, shape,
    strides, mask bytes, unit (C10)."""
    h = hashlib.sha256()
    _feed_buf(h, o)
    return h.hexdigest()[:20]


def _feed_buf(h, o):
    if o is None:
        h.update(b'None')
        return
    if isinstance(o, np.ma.MaskedArray):
        h.update(b'MA')
        _feed_buf(h, np.ma.getdata(o))
        m = np.ma.getmask(o)
        if m is np.ma.nomask:
            h.update(b'nomask')
        else:
            _feed_buf(h, np.asarray(m))
        h.update(repr(o.fill_value).encode())
        h.update(b'hard' if o.hardmask else b'soft')
        return
    if u is not None and isinstance(o, u.Quantity):
        h.update(b'Q' + str(o.unit).encode())
        _feed_buf(h, o.view(np.ndarray))
        return
    if isinstance(o, np.ndarray):
        h.update(str(o.dtype).encode() + str(o.shape).encode()
                 + str(o.strides).encode())
        h.update(b'W' if o.flags.writeable else b'R')
        if o.dtype.kind == 'O':
            for x in o.ravel():
                _feed_buf(h, x)
        else:
            h.update(np.ascontiguousarray(o).tobytes())
        return
    if isinstance(o, (list, tuple)):
        h.update(b'[' if isinstance(o, list) else b'(')
        for x in o:
            _feed_buf(h, x)
            h.update(b',')
        return
    if isinstance(o, dict):
        for k in sorted(o.keys(), key=repr):
            h.update(repr(k).encode())
            _feed_buf(h, o[k])
        return
    if Table is not None and isinstance(o, Table):
        h.update(b'T' + type(o).__name__.encode())
        h.update(repr(o.colnames).encode())
        for name in o.colnames:
            c = o[name]
            h.update(str(getattr(c, 'unit', None)).encode())
            h.update(str(c.dtype).encode())
            if isinstance(c, u.Quantity):
                _feed_buf(h, c)
            else:
                _feed_buf(h, np.ma.asarray(c) if hasattr(c, 'mask')
                          else np.asarray(c))
        h.update(repr(sorted((k, repr(v)) for k, v in o.meta.items())
                      ).encode())
        return
    if isinstance(o, (bool, int, float, str, np.generic)):
        h.update(repr(o).encode())
        return
    h.update(repr(type(o)).encode())
