"""C10 - no public call modifies the arrays, tables or models passed to it.

The simulated storage is a pool of caller-owned buffers; several photutils
objects / calls (actors) hold references into it and are driven by a seeded
program.  The invariant - every buffer bit-for-bit equal to its digest at
creation - is evaluated after every step, also after natural raises and
(fault tier) after a MemoryError injected by a tracer inside a photutils
frame.
"""

from __future__ import annotations

import sys

import numpy as np

from simphot import scenes
from simphot.compare import buffer_digest, digest
from simphot.kernel import (Inapplicable, Machine, Raised, Violation, call,
                            dec, enc)

DATA_REPRS = ['nd', 'ma', 'ma0', 'q', 'view', 'int', 'clean', 'f32', 'be']


class _St:
    pass


def _model_digest(m):
    out = []
    for name in m.param_names:
        p = getattr(m, name)
        out.append((name, repr(p.value), p.fixed, repr(p.bounds),
                    str(p.unit)))
    d = getattr(m, 'data', None)
    if isinstance(d, np.ndarray):
        out.append(buffer_digest(d))
    return repr(out)


_ONES = np.ones((30, 32))
_ESTDATA = np.concatenate([np.linspace(4.0, 6.0, 60), [500.0, -300.0]])


def _aper_digest(a):
    out = []
    for p in a._params:
        v = getattr(a, p)
        if type(v).__name__ == 'SkyCoord':
            out.append((p, repr(v.ra.deg.tolist()), repr(v.dec.deg.tolist()),
                        v.frame.name))
        elif hasattr(v, 'unit'):
            out.append((p, repr(np.asarray(v.value).tolist()), str(v.unit)))
        else:
            out.append((p, repr(np.asarray(v).tolist())))
    if hasattr(a, 'do_photometry'):
        # ... and what it does: an aperture that reports the same parameters
        # but sums other pixels than before (a cached mask rewritten by some
        # call) is not the aperture the caller passed in
        ph = call(a.do_photometry, _ONES, method='exact')
        out.append(('sums', 'raised' if isinstance(ph, Raised) else repr(
            np.round(np.asarray(ph[0], dtype=float), 9).tolist())))
    return repr(out)


def _digest_any(o):
    mod = type(o).__module__ or ''
    name = type(o).__name__
    if name == 'SegmentationImage':
        return ('segm', buffer_digest(o.data),
                digest({int(k): np.asarray(v)
                        for k, v in o._deblend_label_map.items()}))
    if name == 'NDData':
        unc = o.uncertainty
        return ('nddata', buffer_digest(o.data), buffer_digest(
            None if o.mask is None else np.asarray(o.mask)),
            buffer_digest(None if unc is None else unc.array), str(o.unit),
            type(unc).__name__, str(getattr(unc, 'unit', None)),
            repr(sorted((k, repr(v)) for k, v in o.meta.items())))
    if mod.startswith('photutils.aperture'):
        return ('aper', _aper_digest(o))
    if hasattr(o, 'param_names'):
        return ('model', _model_digest(o))
    if mod.startswith('photutils.background') and hasattr(o, 'sigma_clip'):
        # a background / RMS estimator: its settings and what it returns
        v = call(o, _ESTDATA)
        return ('estimator', name, repr(o.sigma_clip),
                'raised' if isinstance(v, Raised) else repr(float(v)))
    if name == 'SourceCatalog':
        # a catalog the caller keeps (e.g. a detection catalog): every
        # array it has cached so far, by attribute name
        return ('catalog', {k: buffer_digest(np.asarray(getattr(
            v, 'value', v))) for k, v in o.__dict__.items()
            if isinstance(v, np.ndarray) and v.dtype.kind in 'biuf'})
    if name == 'EPSFStars':
        return ('epsfstars', o.n_all_stars, o.n_good_stars,
                [(buffer_digest(np.asarray(s.data)),
                  buffer_digest(np.asarray(s.weights)),
                  repr([float(v) for v in s.cutout_center]),
                  repr(float(s.flux)), repr([int(v) for v in s.origin]),
                  bool(s._excluded_from_fit)) for s in o.all_stars])
    if name == 'IsophoteList':
        return ('isolist', repr([(float(i.sma), float(i.intens),
                                  float(i.eps)) for i in o]))
    if name == 'SkyCoord':
        return buffer_digest(np.array([o.ra.deg, o.dec.deg]))
    return buffer_digest(o)


_WEIGHTS_CLS = []


def _weights_uncertainty():
    """An NDUncertainty subclass whose uncertainty_type is 'weights'."""
    if not _WEIGHTS_CLS:
        from astropy.nddata import NDUncertainty

        class WeightsUncertainty(NDUncertainty):
            @property
            def uncertainty_type(self):
                return 'weights'

            def _data_unit_to_uncertainty_unit(self, value):
                return None

            def _propagate_add(self, other_uncert, result_data, correlation):
                return None

            _propagate_subtract = _propagate_multiply = _propagate_add
            _propagate_divide = _propagate_add
        _WEIGHTS_CLS.append(WeightsUncertainty)
    return _WEIGHTS_CLS[0]


class InputsMachine(Machine):
    pid = 'C10'
    max_ops = 9

    def __init__(self, fault_tier=False):
        self.fault_tier = fault_tier
        # injected exceptions may corrupt process-global state of the
        # libraries: every run of the fault tier gets its own process
        self.isolate_runs = bool(fault_tier)
        self.name = 'inputs-fault' if fault_tier else 'inputs'
        self.real_components = [
            'aperture_photometry / ApertureStats / PixelAperture methods',
            'Background2D, LocalBackground', 'centroid_com/quadratic/1dg/2dg/'
            'sources', 'find_peaks, DAOStarFinder, IRAFStarFinder, StarFinder',
            'detect_threshold, detect_sources, deblend_sources, SourceFinder,'
            ' SourceCatalog', 'RadialProfile, CurveOfGrowth',
            'PSFPhotometry, IterativePSFPhotometry, make_model_image, '
            'SourceGrouper', 'calc_total_error, data_properties, gini, '
            'CutoutImage, Ellipse.fit_image']
        self.stub_components = [
            'none for the workload; sys.settrace tracer raising MemoryError '
            'at a seeded line event inside a photutils frame (fault tier)']
        self.rule = ('one run = one pool of caller-owned buffers (ndarray / '
                     'MaskedArray / Quantity / strided view / NDData / int / '
                     'float32 images with negatives, NaN/inf and masked '
                     'pixels, error, mask, background, kernels, tables, '
                     'models, apertures, segmentation image) and a program '
                     'of 3-9 steps by several photutils objects sharing '
                     'them (constructions, calls, later lazy reads); '
                     'distinct = distinct (step, data representation, '
                     'outcome) triples plus (constructor ... lazy read) '
                     'pairs')

    # ------------------------------------------------------------------
    def make_cfg(self, rng, avoid):
        return {'nan': rng.chance(0.6), 'neg': rng.chance(0.7),
                'fault_tier': self.fault_tier,
                'fail_scale': rng.pick([20, 100, 400, 1500])}

    def make_scene(self, rng, cfg):
        sc = scenes.star_field(rng, shape=(30, 32), nstars=rng.randint(2, 4),
                               fwhm=3.0, noise=0.7)
        data = sc['data']
        if cfg['neg']:
            data = data - 3.0
        clean = np.abs(data) + 0.5
        if cfg['nan']:
            for _ in range(rng.randint(1, 4)):
                data[rng.randrange(30), rng.randrange(32)] = rng.pick(
                    [np.nan, np.inf, -np.inf])
        g = rng.np()
        return {'data': enc(data), 'clean': enc(clean),
                'mask': enc(g.random(data.shape) < 0.04),
                'srcs': [[s[0], s[1], s[2]] for s in sc['srcs']],
                'bigseed': rng.randrange(10 ** 6)}

    # ------------------------------------------------------------------
    def start(self, plan, stats, trace):
        import astropy.units as u
        from astropy.nddata import NDData, StdDevUncertainty
        from astropy.table import QTable, Table
        from photutils.aperture import CircularAnnulus, CircularAperture
        from photutils.psf import CircularGaussianPRF, ImagePSF
        from photutils.segmentation import SegmentationImage, detect_sources
        st = _St()
        st.stats, st.trace, st.cfg = stats, trace, plan['cfg']
        sc = plan['scene']
        data = dec(sc['data']).copy()
        clean = dec(sc['clean']).copy()
        mask = dec(sc['mask']).copy()
        g = np.random.default_rng(sc['bigseed'])
        P = {}
        P['nd'] = data.copy()
        mm = mask.copy()
        P['ma'] = np.ma.MaskedArray(data.copy(), mask=mm.copy())
        P['ma0'] = np.ma.MaskedArray(data.copy())
        P['q'] = data.copy() * u.Jy
        big = np.full((34, 70), -7.0)
        big[2:32, 3:67:2] = data
        P['view_base'] = big
        P['view'] = big[2:32, 3:67:2]
        P['int'] = np.round(np.where(np.isfinite(data), data, 0)).astype(
            np.int64)
        P['clean'] = clean.copy()
        P['f32'] = np.where(np.isfinite(data), data, 0).astype(np.float32)
        # non-native byte order (what a FITS reader hands over)
        P['be'] = np.where(np.isfinite(data), data, 0).astype('>f8')
        P['error'] = np.abs(g.normal(1.0, 0.1, data.shape)) + 0.2
        P['error_q'] = P['error'].copy() * u.Jy
        P['error_nan'] = P['error'].copy()
        P['error_nan'][5, 7] = np.nan
        P['error_nan'][int(sc['srcs'][0][1]), int(sc['srcs'][0][0])] = np.inf
        P['mask'] = mask.copy()
        P['mask0'] = np.zeros(data.shape, dtype=bool)      # nothing masked
        P['error_ma'] = np.ma.MaskedArray(
            np.abs(g.normal(1.0, 0.1, data.shape)) + 0.2,
            mask=g.random(data.shape) < 0.02)
        P['background'] = g.normal(2.0, 0.1, data.shape)
        P['threshold'] = np.full(data.shape, 4.0)
        P['coverage'] = np.zeros(data.shape, bool)
        P['coverage'][:, :3] = True
        yy, xx = np.mgrid[-3:4, -3:4]
        P['kernel'] = np.exp(-(xx ** 2 + yy ** 2) / 3.4) * 2.7
        P['footprint'] = np.ones((3, 3), bool)
        fy, fx = np.mgrid[-3:4, -3:4]
        P['footprint_circ'] = np.hypot(fx, fy) <= 3.2     # corners excluded
        P['footprint_cross'] = np.array([[0, 1, 0], [1, 1, 1], [0, 1, 0]],
                                        dtype=bool)
        srcs = sc['srcs']
        P['xpos'] = np.array([s[0] for s in srcs])
        P['ypos'] = np.array([s[1] for s in srcs])
        t = QTable()
        t['x'] = P['xpos'] + 0.2
        t['y'] = P['ypos'] - 0.1
        t['flux'] = np.array([s[2] * 10 for s in srcs])
        t.meta['origin'] = 'caller'
        P['init'] = t
        # the same start values under the other accepted spellings: the
        # canonical names of a result table fed back in (with and without a
        # flux column), and the names a finder / catalog produces
        for key, (xn, yn, fn) in (('init_canon', ('x_init', 'y_init',
                                                  'flux_init')),
                                  ('init_canon_xy', ('x_init', 'y_init',
                                                     None)),
                                  ('init_cen', ('xcentroid', 'ycentroid',
                                                'flux_0')),
                                  ('init_peak', ('x_peak', 'y_peak', None))):
            tt = Table()
            tt[xn] = P['xpos'] + 0.2
            tt[yn] = P['ypos'] - 0.1
            if fn:
                tt[fn] = np.array([s[2] * 10 for s in srcs])
            P[key] = tt
        # unit-ful start values in a unit that converts to the data unit
        tq = QTable()
        tq['x'] = P['xpos'] + 0.2
        tq['y'] = P['ypos'] - 0.1
        tq['flux'] = np.array([s[2] * 10 for s in srcs]) * 1e3 * u.mJy
        tq['local_bkg'] = np.array([0.5] * len(srcs)) * 1e3 * u.mJy
        P['init_q'] = tq
        # box sizes / border widths handed over as integer ndarrays, one
        # element larger than the image (it is clipped)
        P['pair_arr'] = np.array([10, 500])
        P['pair_arr2'] = np.array([7, 99], dtype=np.int32)
        t2 = Table()
        t2['x_0'] = P['xpos'].copy()
        t2['y_0'] = P['ypos'].copy()
        t2['flux'] = np.array([100.0] * len(srcs))
        t2['local_bkg'] = np.array([0.5] * len(srcs))
        P['params'] = t2
        t3 = QTable()
        t3['x_0'] = P['xpos'].copy()
        t3['y_0'] = P['ypos'].copy()
        t3['flux'] = np.array([100.0] * len(srcs)) * u.Jy
        t3['local_bkg'] = np.array([500.0] * len(srcs)) * u.mJy
        P['params_q'] = t3
        P['model_q'] = CircularGaussianPRF(flux=1.0 * u.Jy, fwhm=3.0)
        P['model'] = CircularGaussianPRF(flux=1.0, fwhm=3.0)
        psfimg = scenes.gaussians((13, 13), [(6, 6, 1.0, 1.3, 1.3, 0)])
        P['psfimg'] = psfimg / psfimg.sum()
        P['imodel'] = ImagePSF(P['psfimg'], flux=1.0, x_0=0, y_0=0)
        pos = np.column_stack([P['xpos'], P['ypos']])
        P['aper'] = CircularAperture(pos.copy(), r=3.0)
        P['ann'] = CircularAnnulus(pos.copy(), r_in=4.0, r_out=6.0)
        seg = call(detect_sources, clean, 6.0, 4)
        if seg is None or isinstance(seg, Raised):
            arr = np.zeros(data.shape, dtype=np.int32)
            arr[10:14, 10:15] = 1
            seg = SegmentationImage(arr)
        P['segm'] = SegmentationImage(seg.data.copy())
        # an L-shaped label whose bounding box contains another label; the
        # caller keeps the array the image was built from
        nest = np.zeros((14, 16), dtype=np.int32)
        nest[2:12, 3:5] = 4
        nest[10:12, 3:13] = 4
        nest[4:7, 8:11] = 2
        nest[0, 15] = 7
        P['segm_nest_arr'] = nest
        P['segm_nest'] = SegmentationImage(nest)
        # grid of ePSFs handed to GriddedPSFModel
        psfs = np.array([psfimg / psfimg.sum() * (1 + 0.1 * k)
                         for k in range(4)])
        P['psfgrid'] = NDData(psfs, meta={
            'grid_xypos': [(0, 0), (31, 0), (0, 29), (31, 29)],
            'oversampling': 1})
        # PSF models with parameters held fixed (forced photometry)
        from photutils.psf import GriddedPSFModel
        m = ImagePSF(P['psfimg'].copy(), flux=1.0, x_0=0, y_0=0)
        m.x_0.fixed = True
        m.y_0.fixed = True
        P['imodel_fx'] = m
        m = ImagePSF(P['psfimg'].copy(), flux=1.0, x_0=0, y_0=0)
        m.flux.fixed = True
        P['imodel_ff'] = m
        m = GriddedPSFModel(NDData(psfs.copy(), meta={
            'grid_xypos': [(0, 0), (31, 0), (0, 29), (31, 29)],
            'oversampling': 1}))
        m.x_0.fixed = True
        m.y_0.fixed = True
        P['gmodel_fx'] = m
        m = CircularGaussianPRF(flux=1.0, fwhm=3.0)
        m.x_0.fixed = True
        m.y_0.fixed = True
        P['model_fx'] = m
        # gain / exposure map with zero pixels (documented: no Poisson
        # term there), as an array, as a view and as a Quantity
        gain0 = 1.0 + np.abs(clean) / (1.0 + np.abs(clean).max())
        gain0[3:6, 7:10] = 0.0
        P['gain0'] = gain0
        gbase = np.zeros((data.shape[0] + 4, data.shape[1] + 6))
        gbase[2:-2, 3:-3] = gain0
        P['gain0_base'] = gbase
        P['gain0_view'] = gbase[2:-2, 3:-3]
        P['gain0_q'] = gain0 * (u.electron / u.Jy)
        from astropy.nddata import InverseVariance, VarianceUncertainty
        P['nddata_var'] = NDData(clean.copy(), uncertainty=VarianceUncertainty(
            P['error'] ** 2))
        P['nddata_ivar'] = NDData(clean.copy(), uncertainty=InverseVariance(
            1.0 / P['error'] ** 2))
        # a model whose ePSFs all sit at the same x (a single column)
        gcol = GriddedPSFModel(NDData(psfs.copy(), meta={
            'grid_xypos': [(5, 0), (5, 10), (5, 20), (5, 30)],
            'oversampling': 1}))
        P['gmodel_col'] = gcol
        P['nddata_u'] = NDData(clean.copy(), unit=u.Jy)
        P['nddata'] = NDData(data.copy(), mask=mask.copy(),
                             uncertainty=StdDevUncertainty(
                                 P['error'].copy()))
        # NDData whose uncertainty holds weights (the uncertainty_type
        # 'weights' that extract_stars documents)
        P['nddata_w'] = NDData(clean.copy(), mask=mask.copy(),
                               uncertainty=_weights_uncertainty()(
                                   1.0 / P['error']))
        st.P = P
        st.d0 = {k: _digest_any(v) for k, v in P.items()}
        st.actors = {}
        st.nactor = 0
        st.nsteps = 0
        return st

    def _check_pool(self, st, where):
        for k, v in st.P.items():
            d = _digest_any(v)
            if isinstance(d, tuple) and d and d[0] == 'catalog':
                # values are cached lazily: new entries are fine, an entry
                # that was there must not change
                old = st.d0[k][1]
                bad = [a for a in old if a in d[1] and d[1][a] != old[a]]
                st.d0[k] = ('catalog', {**d[1], **old})
                if not bad:
                    continue
                raise Violation('buffer_modified', self._subject(where, k),
                                f'cached values {bad} of the caller\'s '
                                f'catalog {k!r} changed during {where}')
            if d != st.d0[k]:
                raise Violation('buffer_modified', self._subject(where, k),
                                f'caller buffer {k!r} '
                                f'({type(v).__name__}) changed during '
                                f'{where}')

    @staticmethod
    def _subject(where, buf):
        return f'{where.split(" ")[0]}:{buf}'

    # ------------------------------------------------------------------
    STEPS = ['aperture_photometry', 'aper_methods', 'aperstats_new',
             'background2d_new', 'local_background', 'centroid',
             'centroid_sources', 'find_peaks', 'starfinder',
             'detect_threshold', 'detect_sources', 'deblend', 'sourcefinder',
             'catalog_new', 'profile_new', 'psfphot_new', 'make_model_image',
             'model_eval', 'grouper', 'total_error', 'data_properties',
             'gini', 'cutout', 'ellipse', 'fit_gaussian', 'extract_stars',
             'segm_reads', 'sky_apertures', 'image_depth', 'gridded_model',
             'psf_model_image', 'idw', 'catalog_detcat', 'epsf_builder',
             'epsf_star', 'ellipse_model', 'bkg_estimators', 'psf_matching',
             'other_apertures', 'region_convert', 'poisson_noise',
             'grid_from_epsfs', 'make_psf_model', 'ellipse_sample',
             'psf_models_phot', 'params_to_models', 'psf_fixed_models',
             'actor_read', 'actor_read', 'actor_read']
    WEIGHTS = [3, 2, 3, 3, 1, 4, 2, 2, 4, 2, 2, 1, 1, 3, 3, 3, 2, 1, 1, 1, 2,
               1, 1, 0.3, 2, 1.5, 1.5, 1.5, 0.6, 1.5, 1, 1, 1.5, 0.4, 1.2,
               0.6, 2, 1, 2, 1, 1, 1, 0.6, 1, 1.5, 1, 1.5, 4, 4, 4]

    def next_op(self, rng, st):
        if st.nsteps >= rng.randint(3, 9) and st.nsteps >= 3:
            return None
        name = rng.wpick(self.STEPS, self.WEIGHTS)
        if name == 'actor_read' and not st.actors:
            name = rng.pick(['aperstats_new', 'background2d_new',
                             'catalog_new', 'profile_new'])
        op = {'op': name, 'data': rng.pick(DATA_REPRS),
              'use_mask': rng.chance(0.5), 'use_error': rng.chance(0.5),
              'variant': rng.randrange(6), 'nan_error': rng.chance(0.5),
              'opt': rng.randrange(8),
              'alias': rng.chance(0.08),
              'mask_kind': rng.wpick(['mask', 'mask0'], [4, 1]),
              'error_kind': rng.wpick(['error', 'error_ma'], [4, 1])}
        if name == 'actor_read':
            op['actor'] = rng.pick(sorted(st.actors))
            op['pick'] = rng.randrange(1000)
        if st.cfg['fault_tier'] and rng.chance(0.7):
            if rng.chance(0.5):
                op['fail_at'] = 1 + int(rng.expovariate(1.0 / st.cfg[
                    'fail_scale']))
            else:
                # a position uniform over the whole length of the call
                # (measured by first making the same call without a fault):
                # clean-up code at the end of long functions is reached as
                # often as their first lines
                op['fail_frac'] = round(rng.random(), 4)
        return op

    # ------------------------------------------------------------------
    def _run(self, st, op, fn):
        """Run one step; optionally inject a MemoryError at the n-th line
        event executed inside photutils."""
        n = op.get('fail_at')
        if not n and op.get('fail_frac') is None:
            return call(fn)
        count = [0]
        fired = [False]
        if not n:
            # dry run: the same (legitimate) call, counting line events
            def lcount(frame, event, arg):
                if event == 'line':
                    count[0] += 1
                return lcount

            def tcount(frame, event, arg):
                fnm = frame.f_code.co_filename
                if '/photutils/' in fnm and '/simphot/' not in fnm:
                    return lcount
                return None
            old = sys.gettrace()
            sys.settrace(tcount)
            try:
                out0 = call(fn)
            finally:
                sys.settrace(old)
            total, count[0] = count[0], 0
            if total == 0:
                return out0
            n = 1 + min(total - 1, int(op['fail_frac'] * total))
            st.stats.probe('fault_placed_uniformly_over_call')

        def local(frame, event, arg):
            if event == 'line':
                count[0] += 1
                if count[0] == n:
                    fired[0] = True
                    raise MemoryError('injected allocation failure')
            return local

        def tracer(frame, event, arg):
            fnm = frame.f_code.co_filename
            if '/photutils/' in fnm and '/simphot/' not in fnm:
                return local
            return None
        old = sys.gettrace()
        sys.settrace(tracer)
        try:
            try:
                out = fn()
            except MemoryError as e:
                out = Raised(e)
            except Exception as e:  # noqa: BLE001
                out = Raised(e)
        finally:
            sys.settrace(old)
        if fired[0]:
            st.stats.fault('alloc_fail')
            st.fault_fired = True
        return out

    def step(self, st, op):
        name = op['op']
        fn = getattr(self, '_s_' + name, None)
        if fn is None:
            raise Inapplicable(name)
        st.fault_fired = False
        P = st.P
        data = P[op['data']]
        mask = P[op.get('mask_kind', 'mask')] if op['use_mask'] else None
        error = P['error'] if op['use_error'] else None
        if error is not None and op.get('error_kind') == 'error_ma' and \
                op['data'] != 'q':
            error = P['error_ma']
        if op['data'] == 'q' and error is not None:
            error = P['error_q']
        elif error is not None and op.get('variant', 0) in (1, 4) and \
                op.get('nan_error'):
            error = P['error_nan']
        if op.get('alias') and error is not None and isinstance(
                data, np.ndarray) and type(data) is np.ndarray and \
                data.dtype.kind == 'f':
            # the caller passes the very same array object twice
            error = data
            st.stats.probe('same_object_passed_twice')
        out = fn(st, op, data, mask, error)
        st.nsteps += 1
        kind = ('raise' if isinstance(out, Raised) else
                'none' if out is None else 'ok')
        if isinstance(out, Raised) and not st.fault_fired:
            st.stats.fault('natural_raise')
        st.trace.add('step', name, kind, digest(out) if kind == 'ok'
                     and not hasattr(out, '__dict__') else '')
        st.stats.sig(f'{name}|{op["data"]}|{kind}')
        self._check_pool(st, f'{name} data={op["data"]} mask='
                         f'{op["use_mask"]} error={op["use_error"]} '
                         f'variant={op["variant"]} -> {kind}'
                         + (' (injected MemoryError)' if st.fault_fired
                            else ''))

    def _keep(self, st, kind, obj, op):
        if isinstance(obj, Raised) or obj is None or st.fault_fired:
            return
        st.nactor += 1
        st.actors[f'{kind}{st.nactor}'] = (kind, obj, op['data'])

    # ---- steps ---------------------------------------------------------
    def _s_aperture_photometry(self, st, op, data, mask, error):
        from photutils.aperture import aperture_photometry
        P = st.P
        v = op['variant']
        aper = [P['aper'], P['ann'], [P['aper'], P['ann']]][v % 3]
        if op['data'] == 'view' and v == 5:
            data = P['nddata']
            return self._run(st, op, lambda: aperture_photometry(data, aper))
        if op['data'] == 'clean' and v >= 3:
            # NDData whose uncertainty is a variance / inverse variance
            from photutils.aperture import ApertureStats
            nd = P['nddata_var'] if v % 2 else P['nddata_ivar']
            return self._run(st, op, lambda: (
                aperture_photometry(nd, aper),
                ApertureStats(nd, P['aper']).sum_err))
        return self._run(st, op, lambda: aperture_photometry(
            data, aper, error=error, mask=mask,
            method=['exact', 'center', 'subpixel'][op.get('opt', v) % 3],
            subpixels=3))

    def _s_aper_methods(self, st, op, data, mask, error):
        P = st.P
        aper = P['aper'] if op['variant'] % 2 else P['ann']

        def fn():
            aper.do_photometry(data, error=error, mask=mask)
            aper.area_overlap(data, mask=mask)
            ms = aper.to_mask(method='exact')
            ms[0].cutout(data)
            ms[0].multiply(data)
            ms[0].get_values(data, mask=mask)
            # masks whose weights are all 0 or 1
            mc = aper.to_mask(method='center')
            for m1 in mc[:2]:
                m1.multiply(data)
                m1.multiply(data, fill_value=np.nan)
                m1.cutout(data, fill_value=-1.0)
            if op.get('opt', 0) % 2:
                # drawn on a cutout of the image: origin = cutout corner
                from matplotlib.figure import Figure
                ax = Figure().subplots()
                aper.plot(ax=ax, origin=(2.0 + op['variant'], 3.5))
            return ms[0].to_image(data.shape)
        return self._run(st, op, fn)

    def _s_aperstats_new(self, st, op, data, mask, error):
        from astropy.stats import SigmaClip
        from photutils.aperture import ApertureStats
        P = st.P
        v = op['variant']
        src = P['nddata'] if v == 5 else data
        kw = {} if v == 5 else {'error': error, 'mask': mask}
        out = self._run(st, op, lambda: ApertureStats(
            src, P['aper'] if v % 2 else P['ann'],
            sigma_clip=SigmaClip(3.0) if v % 3 == 0 else None,
            sum_method=['exact', 'center', 'subpixel'][op.get('opt', 0) % 3],
            subpixels=3,
            local_bkg=P['xpos'] * 0 + 1.0 if v == 2 else None, **kw))
        self._keep(st, 'aperstats', out, op)
        return out

    def _s_background2d_new(self, st, op, data, mask, error):
        from astropy.stats import SigmaClip
        from photutils.background import (Background2D, BkgIDWInterpolator,
                                          BkgZoomInterpolator)
        P = st.P
        v = op['variant']
        if 'bkg_est' not in P:
            # estimator objects the caller built (with their own clipping)
            # and may well use on their own afterwards
            from photutils.background import (MedianBackground,
                                              StdBackgroundRMS)
            P['bkg_est'] = MedianBackground(sigma_clip=SigmaClip(3.0))
            P['bkgrms_est'] = StdBackgroundRMS(sigma_clip=SigmaClip(3.0))
            st.d0['bkg_est'] = _digest_any(P['bkg_est'])
            st.d0['bkgrms_est'] = _digest_any(P['bkgrms_est'])
        ekw = {}
        if op.get('opt', 0) in (2, 3):
            ekw = {'bkg_estimator': P['bkg_est'],
                   'bkgrms_estimator': P['bkgrms_est']}
        out = self._run(st, op, lambda: Background2D(
            data, P['pair_arr'] if op.get('opt', 0) == 7 else
            [tuple(data.shape), (10, 8), 7, (10, data.shape[1]),
             (data.shape[0], 8), (15, 16)][v],
            mask=mask,
            coverage_mask=P['coverage'] if v in (1, 4) else None,
            filter_size=[3, 1, (3, 5), 3][op.get('opt', 0) % 4],
            filter_threshold=None if v < 3 else 5.0,
            edge_method='crop' if op.get('opt', 0) >= 6 else 'pad',
            sigma_clip=None if op.get('opt', 0) == 5 else SigmaClip(3.0),
            interpolator=(BkgIDWInterpolator() if op.get('opt', 0) == 4
                          else BkgZoomInterpolator()),
            exclude_percentile=50.0, **ekw))
        self._keep(st, 'bkg2d', out, op)
        return out

    def _s_local_background(self, st, op, data, mask, error):
        from photutils.background import LocalBackground
        P = st.P
        if 'xpos_ma' not in P:
            # positions from a table column with a masked entry
            xm = np.ma.MaskedArray(P['xpos'].copy(), mask=np.zeros(
                len(P['xpos']), bool))
            xm.mask[-1] = True
            P['xpos_ma'], P['ypos_c'] = xm, P['ypos'].copy()
            st.d0['xpos_ma'] = _digest_any(xm)
            st.d0['ypos_c'] = _digest_any(P['ypos_c'])
        if op.get('opt', 0) == 7:
            return self._run(st, op, lambda: LocalBackground(4, 8)(
                data, P['xpos_ma'], P['ypos_c'], mask=mask))
        return self._run(st, op, lambda: LocalBackground(4, 8)(
            data, P['xpos'], P['ypos'], mask=mask))

    def _s_centroid(self, st, op, data, mask, error):
        from photutils.centroids import (centroid_1dg, centroid_2dg,
                                         centroid_com, centroid_quadratic)
        v = op['variant']
        fn = [centroid_com, centroid_quadratic, centroid_1dg, centroid_2dg,
              centroid_1dg, centroid_2dg][v]
        P = st.P
        x, y = int(P['xpos'][0]), int(P['ypos'][0])
        ys = slice(max(0, y - 6), y + 7)
        xs = slice(max(0, x - 6), x + 7)
        cut = data[ys, xs]
        # the cutout is a view of the caller's array (all representations)
        m = None if mask is None else mask[ys, xs]
        if fn in (centroid_1dg, centroid_2dg):
            e = None if error is None else error[ys, xs]
            return self._run(st, op, lambda: fn(cut, error=e, mask=m))
        if fn is centroid_quadratic and op.get('opt', 0) >= 5:
            return self._run(st, op, lambda: fn(
                cut, mask=m, fit_boxsize=P['pair_arr2'][::-1] if op[
                    'opt'] == 5 else 5, search_boxsize=P['pair_arr2']))
        return self._run(st, op, lambda: fn(cut, mask=m))

    def _s_centroid_sources(self, st, op, data, mask, error):
        from photutils.centroids import (centroid_2dg, centroid_com,
                                         centroid_quadratic, centroid_sources)
        P = st.P
        v = op['variant']
        f = [centroid_com, centroid_quadratic, centroid_2dg][v % 3]
        kw = {}
        if f is centroid_2dg and error is not None:
            kw['error'] = error
        return self._run(st, op, lambda: centroid_sources(
            data, P['xpos'], P['ypos'],
            box_size=None if v in (4, 5) else 7, mask=mask,
            footprint=(P['footprint'].repeat(3, 0).repeat(3, 1)[:7, :7]
                       if v == 4 else P['footprint_circ'] if v == 5
                       else None), centroid_func=f, **kw))

    def _s_find_peaks(self, st, op, data, mask, error):
        from photutils.centroids import centroid_com
        from photutils.detection import find_peaks
        P = st.P
        v = op['variant']
        thr = P['threshold'] if v % 2 else 4.0
        if op['data'] == 'q':
            import astropy.units as u
            thr = thr * u.Jy
        return self._run(st, op, lambda: find_peaks(
            data, thr, box_size=5, footprint=P['footprint'] if v == 3
            else P['footprint_cross'] if v == 1 and op.get('opt', 0) % 2
            else None, mask=mask, centroid_func=centroid_com if v == 2
            else None, border_width=P['pair_arr2']
            if op.get('opt', 0) == 7 else [None, 2, (1, 3), None, 0, 4][v],
            npeaks=3 if v == 5 else np.inf))

    def _s_starfinder(self, st, op, data, mask, error):
        from photutils.detection import (DAOStarFinder, IRAFStarFinder,
                                         StarFinder)
        P = st.P
        v = op['variant']
        thr = 5.0
        if op['data'] == 'q':
            import astropy.units as u
            thr = thr * u.Jy
        eb = bool(op.get('use_error'))     # independent coin: border option
        if 'xycoords' not in P:
            # the caller's own float array of (non-integer) positions
            P['xycoords'] = np.column_stack([P['xpos'], P['ypos']]) + 0.3
            st.d0['xycoords'] = _digest_any(P['xycoords'])
        if v % 3 == 0:
            f = DAOStarFinder(thr, 3.0, exclude_border=eb,
                              xycoords=P['xycoords'] if v == 3 else None)
        elif v % 3 == 1:
            f = IRAFStarFinder(thr, 3.0, exclude_border=eb,
                               xycoords=P['xycoords'] if v == 4 and op.get(
                                   'opt', 0) % 2 else None)
        else:
            f = StarFinder(thr, P['kernel'], exclude_border=eb)
        return self._run(st, op, lambda: f(data, mask=mask))

    def _s_detect_threshold(self, st, op, data, mask, error):
        from photutils.segmentation import detect_threshold
        P = st.P
        v = op['variant']
        return self._run(st, op, lambda: detect_threshold(
            data, 2.0, background=P['background'] if v % 2 else None,
            error=error, mask=mask))

    def _s_detect_sources(self, st, op, data, mask, error):
        from photutils.segmentation import detect_sources
        P = st.P
        thr = P['threshold'] if op['variant'] % 2 else 4.0
        if op['data'] == 'q':
            import astropy.units as u
            thr = thr * u.Jy
        return self._run(st, op, lambda: detect_sources(
            data, thr, 4, mask=mask,
            connectivity=4 if op.get('opt', 0) % 2 else 8))

    def _s_deblend(self, st, op, data, mask, error):
        from photutils.segmentation import deblend_sources
        P = st.P
        o = op.get('opt', 0)
        return self._run(st, op, lambda: deblend_sources(
            data, P['segm'], 4, nlevels=8,
            contrast=[0.001, 0.0, 0.3, 1.0][o % 4],
            mode=['exponential', 'linear', 'sinh'][o % 3],
            relabel=bool(o % 2), labels=None if o < 6 else
            [int(P['segm'].labels[0])], progress_bar=False))

    def _s_sourcefinder(self, st, op, data, mask, error):
        from photutils.segmentation import SourceFinder
        thr = 4.0
        if op['data'] == 'q':
            import astropy.units as u
            thr = thr * u.Jy
        return self._run(st, op, lambda: SourceFinder(
            4, nlevels=8, progress_bar=False)(data, thr, mask=mask))

    def _s_catalog_new(self, st, op, data, mask, error):
        from photutils.segmentation import SourceCatalog
        P = st.P
        v = op['variant']
        kw = dict(error=error, mask=mask)
        if op['data'] != 'q':
            if v % 2:
                kw['background'] = P['background']
            if v in (2, 3):
                kw['convolved_data'] = P['clean']
        kw['localbkg_width'] = 4 if v == 4 else 0
        kw['apermask_method'] = ['correct', 'correct', 'mask', 'none'][
            op.get('opt', 0) % 4]
        if op.get('opt', 0) >= 6:
            kw['kron_params'] = (2.5, 1.4, 3.0)
        out = self._run(st, op, lambda: SourceCatalog(data, P['segm'], **kw))
        self._keep(st, 'catalog', out, op)
        return out

    def _s_profile_new(self, st, op, data, mask, error):
        from photutils.profiles import CurveOfGrowth, RadialProfile
        P = st.P
        v = op['variant']
        cls = RadialProfile if v % 2 else CurveOfGrowth
        xy = (float(P['xpos'][0]), float(P['ypos'][0]))
        radii = np.arange(1, 8) if cls is CurveOfGrowth else np.arange(8)
        out = self._run(st, op, lambda: cls(
            data, xy, radii, error=error, mask=mask,
            method=['exact', 'center', 'subpixel'][op.get('opt', 0) % 3],
            subpixels=3))
        self._keep(st, 'profile', out, op)
        return out

    def _s_psfphot_new(self, st, op, data, mask, error):
        from photutils.detection import DAOStarFinder
        from photutils.psf import (IterativePSFPhotometry, PSFPhotometry,
                                   SourceGrouper)
        P = st.P
        v = op['variant']
        model = P['imodel'] if v == 4 else P['model']
        init = P['init'] if v % 2 else None
        if v == 5:
            ph = IterativePSFPhotometry(model, 5, DAOStarFinder(5.0, 3.0),
                                        aperture_radius=4, maxiters=2)
        else:
            from photutils.background import LocalBackground
            o = op.get('opt', 0)
            ph = PSFPhotometry(model, 5, finder=DAOStarFinder(5.0, 3.0),
                               grouper=SourceGrouper(5) if v == 2 else None,
                               localbkg_estimator=LocalBackground(4, 8)
                               if o % 3 == 0 else None,
                               xy_bounds=2.0 if o == 1 else None,
                               aperture_radius=4)
        if op['data'] == 'q' and init is not None:
            init = P['init_q'] if op.get('opt', 0) % 2 else None

        def fn():
            ph(data, mask=mask, error=error, init_params=init)
            return ph
        out = self._run(st, op, fn)
        self._keep(st, 'psfphot', out, op)
        return out

    def _s_make_model_image(self, st, op, data, mask, error):
        from photutils.datasets import make_model_image
        P = st.P
        v = op['variant']
        model = P['imodel'] if v % 2 else P['model']
        if op.get('opt', 0) >= 6:
            # unit-ful model and QTable (local_bkg in a convertible unit)
            return self._run(st, op, lambda: make_model_image(
                (30, 32), P['model_q'], P['params_q'], model_shape=(7, 7)))
        return self._run(st, op, lambda: make_model_image(
            (30, 32), model, P['params'], model_shape=(7, 7),
            discretize_method='center' if v < 4 else 'oversample',
            discretize_oversample=3))

    def _s_model_eval(self, st, op, data, mask, error):
        P = st.P
        yy, xx = np.mgrid[0:9, 0:9]
        m = P['imodel'] if op['variant'] % 2 else P['model']

        if 'xx_f' not in P:
            # float64 coordinate grids the caller keeps and uses again
            fy, fx = np.mgrid[0:9:0.5, 0:9:0.5]
            P['xx_f'], P['yy_f'] = fx, fy
            st.d0['xx_f'] = _digest_any(fx)
            st.d0['yy_f'] = _digest_any(fy)

        def fn():
            c = m.copy()
            c.x_0 = 4.2
            c.y_0 = 3.9
            c.flux = 7.0
            if op.get('opt', 0) % 2:
                return c(P['xx_f'], P['yy_f']) + m(P['xx_f'], P['yy_f'])
            return c(xx, yy) + m(xx - 4.0, yy - 4.0)
        return self._run(st, op, fn)

    def _s_grouper(self, st, op, data, mask, error):
        from photutils.psf import SourceGrouper
        P = st.P
        return self._run(st, op, lambda: SourceGrouper(6.0)(
            P['xpos'], P['ypos']))

    def _s_total_error(self, st, op, data, mask, error):
        from photutils.utils import calc_total_error
        P = st.P
        if op['data'] == 'q':
            import astropy.units as u
            gq = P['gain0_q'] if op['variant'] % 2 else \
                2.0 * u.electron / u.Jy
            return self._run(st, op, lambda: calc_total_error(
                data, P['error_q'], gq))
        gain = [2.0, P['clean'], P['gain0'], P['gain0_view'], 0.0,
                P['gain0']][op['variant'] % 6]
        return self._run(st, op, lambda: calc_total_error(
            data, P['error'], gain))

    def _s_data_properties(self, st, op, data, mask, error):
        from photutils.morphology import data_properties
        P = st.P

        def fn():
            c = data_properties(data, mask=mask,
                                background=P['background']
                                if op['variant'] % 2 and op['data'] != 'q'
                                else None)
            return (c.xcentroid, c.semimajor_sigma, c.segment_flux)
        return self._run(st, op, fn)

    def _s_gini(self, st, op, data, mask, error):
        from photutils.morphology import gini
        return self._run(st, op, lambda: gini(data, mask=mask))

    def _s_cutout(self, st, op, data, mask, error):
        from photutils.utils import CutoutImage
        P = st.P
        v = op['variant']

        def fn():
            c = CutoutImage(data, (P['ypos'][0], P['xpos'][0]), (7, 9),
                            mode=['trim', 'partial', 'partial'][v % 3],
                            copy=bool(v % 2))
            return c.data.sum()
        return self._run(st, op, fn)

    def _s_ellipse(self, st, op, data, mask, error):
        from photutils.isophote import Ellipse, EllipseGeometry
        P = st.P
        if op['data'] in ('q', 'ma', 'ma0'):
            data = P['clean']

        def fn():
            g = EllipseGeometry(float(P['xpos'][0]), float(P['ypos'][0]),
                                3.0, 0.1, 0.3)
            return Ellipse(data, g).fit_image(maxsma=6.0, minsma=2.0,
                                              step=0.4)
        return self._run(st, op, fn)

    def _s_fit_gaussian(self, st, op, data, mask, error):
        from photutils.psf import fit_2dgaussian, fit_fwhm
        P = st.P
        v = op['variant']
        xy = np.column_stack([P['xpos'], P['ypos']])
        if v % 2:
            return self._run(st, op, lambda: fit_fwhm(
                data, xypos=xy, fit_shape=7, mask=mask, error=error))

        def fn():
            return fit_2dgaussian(data, xypos=xy, fit_shape=7, mask=mask,
                                  error=error, fix_fwhm=v < 4).results
        return self._run(st, op, fn)

    def _s_extract_stars(self, st, op, data, mask, error):
        from astropy.nddata import NDData
        from astropy.table import Table
        from photutils.psf import extract_stars
        P = st.P
        src = [None, P['nddata'], P['nddata_w'], P['nddata'], None,
               P['nddata_w']][op['variant']]
        tbl = Table()
        tbl['x'] = P['xpos']
        tbl['y'] = P['ypos']
        st.P.setdefault('stars_tbl', tbl)
        if 'stars_tbl' not in st.d0:
            st.d0['stars_tbl'] = _digest_any(tbl)

        def fn():
            nd = src if src is not None else NDData(
                data if op['data'] not in ('ma', 'ma0') else P['nd'])
            stars = extract_stars(nd, st.P['stars_tbl'], size=9)
            return [s.data.sum() for s in stars.all_stars], \
                stars.cutout_center_flat
        return self._run(st, op, fn)

    def _s_segm_reads(self, st, op, data, mask, error):
        P = st.P
        seg = P['segm']
        v = op['variant']

        def fn():
            out = [seg.make_source_mask(size=3 if v % 2 else None),
                   seg.areas, seg.bbox, len(seg.segments)]
            c = seg.copy()
            c.remove_border_labels(2, relabel=True)
            c2 = seg.copy()
            c2.remove_masked_labels(P['mask'] if mask is None else mask,
                                    partial_overlap=bool(v % 2),
                                    relabel=bool(v % 3))
            s0 = seg.segments[0]
            out.append(s0.make_cutout(data, masked_array=bool(v % 2)))
            # per-segment reads, also on an image in which one label's
            # bounding box contains pixels of another label
            for sg in (seg, P['segm_nest']):
                for s1 in sg.segments:
                    out.append((s1.data, s1.data_ma, s1.bbox, s1.area,
                                s1.slices))
                out.append((sg.data_ma, sg.get_index(sg.labels[-1]),
                            sg.background_area))
            out.append(seg[2:20, 3:25].nlabels)
            return out
        return self._run(st, op, fn)

    def _s_sky_apertures(self, st, op, data, mask, error):
        import astropy.units as u
        from photutils.aperture import (ApertureStats, SkyCircularAperture,
                                        aperture_photometry)
        from simphot.machines.catalog import _wcs
        P = st.P
        w = _wcs((30, 32))
        sky = w.pixel_to_world(P['xpos'], P['ypos'])
        if 'sky' not in P:
            P['sky'] = sky
            st.d0['sky'] = _digest_any(sky)
        aper = SkyCircularAperture(P['sky'], r=2.0 * u.arcsec)
        if 'theta_rad' not in P:
            from photutils.aperture import (SkyEllipticalAperture,
                                            SkyRectangularAnnulus)
            P['theta_rad'] = 0.3 * u.rad        # the caller's own Quantity
            P['sky_ell_rad'] = SkyEllipticalAperture(
                P['sky'], 3 * u.arcsec, 2 * u.arcsec, theta=P['theta_rad'])
            P['sky_rann_rad'] = SkyRectangularAnnulus(
                P['sky'], 2 * u.arcsec, 4 * u.arcsec, 3 * u.arcsec,
                theta=1.1 * u.rad)
            for k in ('theta_rad', 'sky_ell_rad', 'sky_rann_rad'):
                st.d0[k] = _digest_any(P[k])
        if op.get('opt', 0) >= 5:
            aper = P['sky_ell_rad'] if op['opt'] % 2 else P['sky_rann_rad']

        def fn():
            if op.get('opt', 0) == 7:
                return aper.to_pixel(w).area
            if op['variant'] % 2:
                return aperture_photometry(data, aper, wcs=w, error=error,
                                           mask=mask)
            return ApertureStats(data, aper, wcs=w, error=error,
                                 mask=mask).to_table()
        return self._run(st, op, fn)

    def _s_image_depth(self, st, op, data, mask, error):
        from photutils.utils import ImageDepth
        P = st.P
        o = op.get('opt', 0)
        if mask is None:
            mask = P['mask0'] if o % 2 else P['mask']
        if op['data'] in ('ma', 'ma0', 'q'):
            data = P['clean']
        return self._run(st, op, lambda: ImageDepth(
            2.0, nsigma=3.0, napers=20, niters=2, mask_pad=o % 3,
            overlap=bool(o % 2), seed=o, progress_bar=False)(data, mask))

    def _s_gridded_model(self, st, op, data, mask, error):
        from photutils.datasets import make_model_image
        from photutils.psf import GriddedPSFModel, PSFPhotometry
        P = st.P
        v = op['variant']

        def fn():
            m = GriddedPSFModel(P['psfgrid'], flux=2.0, x_0=10.2, y_0=11.7)
            yy, xx = np.mgrid[5:18, 5:17]
            out = m(xx, yy)
            c = m.copy()
            c.x_0 = 20.0
            out = out + c(xx, yy)
            if op.get('opt', 0) == 7:
                import matplotlib.pyplot as plt
                for gm in (P['gmodel_col'], P['gmodel_fx']):
                    gm.plot_grid(peak_norm=True)
                    gm.plot_grid(deltas=True)
                plt.close('all')
            if v % 3 == 0:
                make_model_image((30, 32), m, P['params'],
                                 model_shape=(7, 7))
            elif v % 3 == 1:
                PSFPhotometry(m, 5, aperture_radius=4)(
                    P['clean'], init_params=P['init'])
            return out
        return self._run(st, op, fn)

    def _s_psf_model_image(self, st, op, data, mask, error):
        from photutils.psf import make_psf_model_image
        P = st.P
        m = P['imodel'] if op['variant'] % 2 else P['model']
        return self._run(st, op, lambda: make_psf_model_image(
            (30, 32), m, 3, model_shape=(7, 7), flux=(50, 100),
            min_separation=3, seed=op['variant']))

    def _s_idw(self, st, op, data, mask, error):
        from photutils.utils import ShepardIDWInterpolator
        P = st.P
        coords = np.column_stack([P['xpos'], P['ypos']])
        vals = P['xpos'] * 2.0
        if 'idw_coords' not in P:
            P['idw_coords'], P['idw_vals'] = coords, vals
            st.d0['idw_coords'] = _digest_any(coords)
            st.d0['idw_vals'] = _digest_any(vals)
        return self._run(st, op, lambda: ShepardIDWInterpolator(
            P['idw_coords'], P['idw_vals'])(
                [[3.0, 4.0], [10.0, 12.0]], n_neighbors=2, power=1.0 + op[
                    'variant'] % 2))

    def _s_catalog_detcat(self, st, op, data, mask, error):
        from photutils.segmentation import SourceCatalog
        P = st.P
        if op['data'] == 'q':
            data = P['nd']

        if 'detcat' not in P:
            # the detection catalog is the caller's object: it goes on
            # using it after handing it to other catalogs
            P['detcat'] = SourceCatalog(P['clean'], P['segm'],
                                        convolved_data=P['clean'],
                                        kron_params=(2.5, 1.4, 1.0))
            P['detcat'].kron_radius
            st.d0['detcat'] = _digest_any(P['detcat'])
        v = op['variant']

        def fn():
            if v % 2:
                det = SourceCatalog(P['clean'], P['segm'],
                                    convolved_data=P['clean'])
                return SourceCatalog(data, P['segm'], error=error,
                                     mask=mask, detection_cat=det)
            cat = SourceCatalog(data, P['segm'], error=error, mask=mask,
                                detection_cat=P['detcat'],
                                kron_params=(2.5, 1.4, 1.0))
            if op.get('opt', 0) % 2:
                # other Kron parameters (small minimum Kron radius, large
                # minimum circular radius)
                cat.kron_photometry((2.0, 0.1, 50.0))
                cat.make_kron_apertures((2.0, 0.1, 50.0))
            return cat
        out = self._run(st, op, fn)
        self._keep(st, 'catalog', out, op)
        return out

    def _s_epsf_builder(self, st, op, data, mask, error):
        from astropy.nddata import NDData
        from astropy.table import Table
        from photutils.psf import EPSFBuilder, extract_stars
        P = st.P
        tbl = Table()
        tbl['x'] = P['xpos']
        tbl['y'] = P['ypos']

        if 'epsf_stars' not in P:
            # stars the caller assembled itself; the centre of one lies so
            # close to the edge of its cutout that its fitting box sticks
            # out (the fitter reports it as failed)
            from photutils.psf import EPSFStar, EPSFStars
            lst = []
            for k, (x, y) in enumerate(zip(P['xpos'], P['ypos'])):
                xi, yi = int(round(x)), int(round(y))
                if not (4 <= xi < P['clean'].shape[1] - 4
                        and 4 <= yi < P['clean'].shape[0] - 4):
                    continue
                off = 3 if not lst else 0
                cut = P['clean'][yi - 4:yi + 5, xi - 4 + off:xi + 5 + off]
                if cut.shape != (9, 9):
                    continue
                lst.append(EPSFStar(cut.copy(), cutout_center=(
                    x - (xi - 4 + off), y - (yi - 4)),
                    origin=(xi - 4 + off, yi - 4)))
            P['epsf_stars'] = EPSFStars(lst) if len(lst) >= 2 else None
            st.d0['epsf_stars'] = _digest_any(P['epsf_stars'])

        if 'nddata_star' not in P:
            # an image with a bad pixel next to the peak of a star (inside
            # the fitter's box); the star cutouts are views of it
            img = P['clean'].copy()
            xi, yi = int(round(P['xpos'][0])), int(round(P['ypos'][0]))
            img[min(img.shape[0] - 1, yi + 1), min(img.shape[1] - 1, xi)] = \
                np.nan
            P['nddata_star'] = NDData(img)
            st.d0['nddata_star'] = _digest_any(P['nddata_star'])

        def fn():
            if op.get('opt', 0) == 4:
                stars = extract_stars(P['nddata_star'], tbl, size=9)
                epsf, fitted = EPSFBuilder(oversampling=1, maxiters=2,
                                           progress_bar=False)(stars)
                return epsf.data
            if op.get('opt', 0) >= 5 and P['epsf_stars'] is not None:
                epsf, fitted = EPSFBuilder(
                    oversampling=1, maxiters=5, progress_bar=False,
                    center_accuracy=1e-6)(P['epsf_stars'])
                return epsf.data
            stars = extract_stars(P['nddata_w'] if op['variant'] % 2
                                  else NDData(P['clean']), tbl, size=9)
            epsf, fitted = EPSFBuilder(oversampling=1, maxiters=1,
                                       progress_bar=False)(stars)
            return epsf.data
        return self._run(st, op, fn)

    def _s_epsf_star(self, st, op, data, mask, error):
        from photutils.psf import EPSFStar, EPSFStars
        P = st.P
        x, y = int(P['xpos'][0]), int(P['ypos'][0])
        ys, xs = slice(max(0, y - 4), y + 5), slice(max(0, x - 4), x + 5)
        src = P['nd'] if op['data'] in ('ma', 'ma0', 'q') else data
        cut = src[ys, xs]                       # view of the caller's image
        w = (P['error'] if op['variant'] % 2 else P['clean'])[ys, xs]

        def fn():
            star = EPSFStar(cut, weights=w, cutout_center=(4.2, 3.9),
                            origin=(xs.start, ys.start))
            stars = EPSFStars([star])
            return (star.flux, star.estimate_flux(), stars.n_good_stars,
                    star.register_epsf is not None)
        return self._run(st, op, fn)

    def _s_ellipse_model(self, st, op, data, mask, error):
        from photutils.isophote import (Ellipse, EllipseGeometry,
                                        IsophoteList, build_ellipse_model)
        P = st.P
        if 'isolist' not in P:
            yy, xx = np.mgrid[0:40, 0:40]
            img = 1000.0 * np.exp(-np.hypot(xx - 20.3, (yy - 19.6) / 0.8)
                                  / 5.0)
            iso = call(lambda: Ellipse(img, EllipseGeometry(
                20, 20, 5.0, 0.2, 0.1)).fit_image(maxsma=12, minsma=2,
                                                  step=0.3))
            if isinstance(iso, Raised) or len(iso) < 3:
                return iso
            P['isolist'] = iso
            # caller-assembled list in another order (outer part first)
            lst = list(iso)
            P['isolist_unsorted'] = IsophoteList(lst[3:] + lst[:3])
            st.d0['isolist'] = _digest_any(P['isolist'])
            st.d0['isolist_unsorted'] = _digest_any(P['isolist_unsorted'])
        il = P['isolist_unsorted'] if op['variant'] % 2 else P['isolist']
        return self._run(st, op, lambda: build_ellipse_model(
            (40, 40), il, high_harmonics=bool(op.get('opt', 0) % 2)))

    def _s_bkg_estimators(self, st, op, data, mask, error):
        from astropy.stats import SigmaClip
        import photutils.background as pb
        v, o = op['variant'], op.get('opt', 0)
        cls = [pb.MeanBackground, pb.MedianBackground, pb.MMMBackground,
               pb.SExtractorBackground, pb.BiweightLocationBackground,
               pb.ModeEstimatorBackground, pb.StdBackgroundRMS,
               pb.MADStdBackgroundRMS, pb.BiweightScaleBackgroundRMS][
                   (v + 3 * (o % 3)) % 9]
        est = cls(sigma_clip=SigmaClip(3.0) if o % 2 else None)
        if mask is not None and not isinstance(data, np.ma.MaskedArray) \
                and op['data'] != 'q':
            arr = np.ma.MaskedArray(data, mask=mask)   # views caller arrays
        else:
            arr = data
        return self._run(st, op, lambda: (
            est(arr), est.calc_background(arr, axis=0)
            if hasattr(est, 'calc_background')
            else est.calc_background_rms(arr, axis=0)))

    def _s_psf_matching(self, st, op, data, mask, error):
        from photutils.psf.matching import (CosineBellWindow, HanningWindow,
                                            SplitCosineBellWindow,
                                            TopHatWindow, TukeyWindow,
                                            create_matching_kernel,
                                            resize_psf)
        P = st.P
        v = op['variant']
        win = [None, CosineBellWindow(0.5), HanningWindow(),
               SplitCosineBellWindow(0.4, 0.3), TopHatWindow(0.5),
               TukeyWindow(0.4)][v]
        if 'psfimg2' not in P:
            P['psfimg2'] = scenes.gaussians((13, 13), [(6, 6, 1.0, 2.0, 2.0,
                                                        0)])
            st.d0['psfimg2'] = _digest_any(P['psfimg2'])
        return self._run(st, op, lambda: (
            create_matching_kernel(P['psfimg'], P['psfimg2'], window=win),
            resize_psf(P['psfimg'], 0.1, 0.05 + 0.05 * (v % 2))))

    def _s_other_apertures(self, st, op, data, mask, error):
        import astropy.units as u
        import photutils.aperture as pa
        from simphot.machines.catalog import _wcs
        P = st.P
        v, o = op['variant'], op.get('opt', 0)
        pos = np.column_stack([P['xpos'], P['ypos']])
        if 'aper_more0' not in P:
            w = _wcs((30, 32))
            sky = w.pixel_to_world(P['xpos'], P['ypos'])
            more = [
                pa.EllipticalAperture(pos.copy(), 4.0, 2.0, theta=0.4),
                pa.EllipticalAnnulus(pos.copy(), 2.0, 5.0, 3.0, theta=1.0),
                pa.RectangularAperture(pos.copy(), 5.0, 3.0, theta=0.2),
                pa.RectangularAnnulus(pos.copy(), 3.0, 6.0, 4.0, theta=0.7),
                pa.SkyEllipticalAperture(sky, 3 * u.arcsec, 2 * u.arcsec,
                                         theta=10 * u.deg),
                pa.SkyCircularAnnulus(sky, 2 * u.arcsec, 4 * u.arcsec),
                pa.SkyRectangularAperture(sky, 3 * u.arcsec, 2 * u.arcsec),
                pa.SkyEllipticalAnnulus(sky, 2 * u.arcsec, 4 * u.arcsec,
                                        3 * u.arcsec),
                pa.SkyRectangularAnnulus(sky, 2 * u.arcsec, 4 * u.arcsec,
                                         3 * u.arcsec)]
            for k, a in enumerate(more):
                P[f'aper_more{k}'] = a
                st.d0[f'aper_more{k}'] = _digest_any(a)
        aper = st.P[f'aper_more{(v + o) % 9}']
        w = _wcs((30, 32))

        def fn():
            if (v + o) % 9 >= 4:
                t = pa.aperture_photometry(data, aper, wcs=w, error=error,
                                           mask=mask)
                pix = aper.to_pixel(w)
                return t, pix.area
            t = pa.aperture_photometry(data, aper, error=error, mask=mask,
                                       method=['exact', 'center',
                                               'subpixel'][o % 3])
            st2 = pa.ApertureStats(data, aper, error=error, mask=mask)
            return t, st2.sum, aper.to_sky(w).positions.ra.deg
        return self._run(st, op, fn)

    def _s_region_convert(self, st, op, data, mask, error):
        from photutils.aperture import (aperture_to_region,
                                        region_to_aperture, ApertureStats)
        P = st.P
        aper = P['aper'] if op['variant'] % 2 else P['ann']

        def fn():
            regs = aperture_to_region(aper)
            back = [region_to_aperture(r) for r in regs]
            s = ApertureStats(data, regs[0], error=error, mask=mask)
            return len(back), s.sum
        return self._run(st, op, fn)

    def _s_poisson_noise(self, st, op, data, mask, error):
        from photutils.datasets import apply_poisson_noise, make_noise_image
        P = st.P
        src = P['clean'] if op['data'] in ('nd', 'ma', 'ma0', 'q', 'view',
                                           'int') else data
        return self._run(st, op, lambda: apply_poisson_noise(
            src, seed=op['variant']))

    def _s_grid_from_epsfs(self, st, op, data, mask, error):
        from photutils.psf import ImagePSF, grid_from_epsfs
        P = st.P
        if 'epsf0' not in P:
            for k in range(4):
                m = ImagePSF(P['psfimg'] * (1 + 0.1 * k),
                             x_0=10.0 * (k % 2), y_0=12.0 * (k // 2))
                P[f'epsf{k}'] = m
                st.d0[f'epsf{k}'] = _digest_any(m)
        models = [P[f'epsf{k}'] for k in range(4)]

        def fn():
            g = grid_from_epsfs(models)
            yy, xx = np.mgrid[0:9, 0:9]
            g.x_0, g.y_0 = 4.0, 5.0
            return g(xx, yy)
        return self._run(st, op, fn)

    def _s_make_psf_model(self, st, op, data, mask, error):
        from astropy.modeling.models import Gaussian2D
        from photutils.psf import PSFPhotometry, make_psf_model
        P = st.P
        if 'g2d' not in P:
            P['g2d'] = Gaussian2D(1.0, 0.0, 0.0, 1.3, 1.3)
            st.d0['g2d'] = _digest_any(P['g2d'])
            # core + halo: a compound model shares its leaves' parameters
            core = Gaussian2D(1.0, 0.0, 0.0, 1.2, 1.2)
            halo = Gaussian2D(0.1, 0.0, 0.0, 3.0, 3.0)
            P['g2d_core'], P['g2d_halo'] = core, halo
            P['g2d_sum'] = core + halo
            for k in ('g2d_core', 'g2d_halo', 'g2d_sum'):
                st.d0[k] = _digest_any(P[k])

        def fn():
            if op.get('opt', 0) >= 4:
                m = make_psf_model(P['g2d_sum'], x_name='x_mean_0',
                                   y_name='y_mean_0',
                                   normalize=bool(op['variant'] % 2))
                yy, xx = np.mgrid[0:9, 0:9]
                return m(xx, yy)
            m = make_psf_model(P['g2d'], x_name='x_mean', y_name='y_mean',
                               normalize=bool(op['variant'] % 2))
            ph = PSFPhotometry(m, 5, aperture_radius=4)
            return ph(P['clean'], init_params=P['init'])
        return self._run(st, op, fn)

    def _s_ellipse_sample(self, st, op, data, mask, error):
        from photutils.isophote import (EllipseGeometry, EllipseSample,
                                        Isophote)
        from photutils.isophote.fitter import EllipseFitter
        P = st.P
        src = P['clean'] if op['data'] in ('q', 'ma', 'ma0') else data

        def fn():
            g = EllipseGeometry(float(P['xpos'][0]), float(P['ypos'][0]),
                                4.0, 0.2, 0.3)
            smp = EllipseSample(src, 4.0, geometry=g)
            smp.update(g.fix)
            iso = EllipseFitter(smp).fit(maxit=5)
            return iso.intens, iso.eps
        return self._run(st, op, fn)

    def _s_psf_models_phot(self, st, op, data, mask, error):
        import photutils.psf as pp
        P = st.P
        v = op['variant']
        if 'psfm0' not in P:
            models = [pp.GaussianPRF(x_fwhm=3.0, y_fwhm=2.5, theta=10),
                      pp.GaussianPSF(x_fwhm=3.0, y_fwhm=3.0),
                      pp.CircularGaussianPSF(fwhm=3.0),
                      pp.CircularGaussianSigmaPRF(sigma=1.3),
                      pp.MoffatPSF(alpha=3.0, beta=2.5),
                      pp.AiryDiskPSF(radius=3.0)]
            models[0].x_fwhm.fixed = False
            models[4].alpha.bounds = (1.0, 6.0)
            for k, m in enumerate(models):
                P[f'psfm{k}'] = m
                st.d0[f'psfm{k}'] = _digest_any(m)
        model = P[f'psfm{v}']

        def fn():
            ph = pp.PSFPhotometry(model, 5, aperture_radius=4,
                                  grouper=pp.SourceGrouper(4)
                                  if op.get('opt', 0) % 2 else None)
            init = P[['init', 'init_canon', 'init_canon_xy', 'init_cen',
                      'init_peak', 'init', 'init_canon', 'init_canon_xy'][
                          op.get('opt', 0)]]
            t = ph(data, mask=mask, error=error, init_params=init)
            # residuals of the caller's images, handed over as NDData with
            # and without a unit
            r1 = ph.make_residual_image(P['nddata_u'])
            r2 = ph.make_residual_image(P['nddata'])
            return t, ph.make_model_image((30, 32)), r1, r2
        return self._run(st, op, fn)

    def _s_psf_fixed_models(self, st, op, data, mask, error):
        """Forced photometry: models whose position (or flux) is fixed."""
        import photutils.psf as pp
        from photutils.datasets import make_model_image
        P = st.P
        v, o = op['variant'], op.get('opt', 0)
        model = P[['imodel_fx', 'gmodel_fx', 'model_fx', 'imodel_ff',
                   'imodel_fx', 'gmodel_fx'][v]]

        def fn():
            if o == 0:
                return make_model_image((30, 32), model, P['params'],
                                        model_shape=(7, 7))
            if o == 1:
                return pp.make_psf_model_image(
                    (30, 32), model, 3, model_shape=(7, 7), flux=(50, 100),
                    min_separation=3, seed=v)
            if o == 2:
                ph = pp.IterativePSFPhotometry(
                    model, 5, __import__('photutils.detection').detection
                    .DAOStarFinder(5.0, 3.0), aperture_radius=4, maxiters=2)
                return ph(data, mask=mask, error=error,
                          init_params=P['init'])
            ph = pp.PSFPhotometry(model, 5, aperture_radius=4,
                                  grouper=pp.SourceGrouper(4)
                                  if o % 2 else None)
            t = ph(data, mask=mask, error=error, init_params=P['init'])
            if o >= 5:
                return t, ph.make_model_image((30, 32)), \
                    ph.make_residual_image(data)
            return t
        return self._run(st, op, fn)

    def _s_params_to_models(self, st, op, data, mask, error):
        from photutils.datasets import (make_model_params,
                                        params_table_to_models)
        P = st.P
        m = P['imodel'] if op['variant'] % 2 else P['model']

        def fn():
            ms = params_table_to_models(P['params'], m)
            ms[0].flux = 3.0
            make_model_params((30, 32), 3, flux=(1, 5), seed=op['variant'])
            return len(ms)
        return self._run(st, op, fn)

    # lazily evaluated properties / later calls of retained objects
    def _s_actor_read(self, st, op, data, mask, error):
        key = op.get('actor')
        if key not in st.actors:
            raise Inapplicable('actor')
        kind, obj, drepr = st.actors[key]
        P = st.P
        pick = op['pick']
        if kind in ('aperstats', 'catalog'):
            props = list(obj.properties)
            name = props[pick % len(props)]
            if kind == 'catalog' and pick % 7 == 0:
                fn = lambda: obj.circular_photometry(3.0)  # noqa: E731
                name = 'circular_photometry'
            elif kind == 'catalog' and pick % 11 == 0:
                fn = lambda: obj.fluxfrac_radius(0.5)  # noqa: E731
                name = 'fluxfrac_radius'
            elif pick % 5 == 0:
                fn = lambda: obj[0].to_table()  # noqa: E731
                name = 'index_to_table'
            elif kind == 'catalog' and pick % 3 == 0:
                # every default column at once (Kron and circular-aperture
                # quantities among them)
                fn = lambda: obj.to_table()  # noqa: E731
                name = 'to_table'
            elif kind == 'catalog' and pick % 13 == 0:
                fn = lambda: obj.make_cutouts((5, 5))  # noqa: E731
                name = 'make_cutouts'
            else:
                fn = lambda: getattr(obj, name)  # noqa: E731
        elif kind == 'bkg2d':
            names = ['background', 'background_rms', 'background_mesh',
                     'background_rms_mesh', 'background_median',
                     'npixels_map']
            name = names[pick % len(names)]
            fn = lambda: getattr(obj, name)  # noqa: E731
        elif kind == 'profile':
            names = ['profile', 'profile_error', 'area', 'radius',
                     'normalize', 'unnormalize', 'data_profile', 'apertures',
                     'gaussian_fwhm']
            name = names[pick % len(names)]
            if name in ('normalize', 'unnormalize'):
                fn = getattr(obj, name)
            else:
                fn = lambda: getattr(obj, name, None)  # noqa: E731
        else:  # psfphot
            names = ['model_image', 'residual', 'results', 'again']
            name = names[pick % len(names)]
            d = P[drepr]
            if name == 'model_image':
                fn = lambda: obj.make_model_image((30, 32))  # noqa: E731
            elif name == 'residual':
                fn = lambda: obj.make_residual_image(d)  # noqa: E731
            elif name == 'again':
                fn = lambda: obj(P['clean'], init_params=P['init'])  # noqa
            else:
                fn = lambda: getattr(obj, 'results', None)  # noqa: E731
        out = self._run(st, op, fn)
        st.stats.sig(f'lazy|{kind}|{drepr}|{name}')
        st.stats.probe('lazy_read_after_construction')
        if st.fault_fired:
            # the actor that took the fault is discarded
            st.actors.pop(key, None)
        return out

    def nontrivial(self, plan, st):
        return st.nsteps >= 2

    def simpler_ops(self, op):
        if op.get('fail_at') or op.get('fail_frac') is not None:
            o = dict(op)
            o.pop('fail_at', None)
            o.pop('fail_frac', None)
            yield o
        if op.get('use_mask'):
            yield {**op, 'use_mask': False}
        if op.get('use_error'):
            yield {**op, 'use_error': False}
        if op.get('data') not in ('nd', None):
            yield {**op, 'data': 'nd'}
