"""C19 - radial profiles and curves of growth are consistent with aperture
photometry; normalize/unnormalize restore every array whenever it was first
read; the encircled-energy interpolators invert each other.

Reference model: raw arrays computed one radius at a time with
CircularAperture photometry (the property defines profiles through it) and
a scalar normalisation state; expected(array) = raw / state.
"""

from __future__ import annotations

import numpy as np

from simphot import scenes
from simphot.compare import diff, digest
from simphot.kernel import (Held, Inapplicable, Machine, Raised, Violation,
                            call, dec, enc)

RTOL = 1e-10


class _St:
    pass


class ProfileMachine(Machine):
    pid = 'C19'
    max_ops = 16

    def __init__(self, variant='radial'):
        self.variant = variant
        self.name = 'profile-' + variant
        self.real_components = [
            'RadialProfile' if variant == 'radial' else 'CurveOfGrowth',
            'ProfileBase.normalize/unnormalize', 'PchipInterpolator-based '
            'calc_ee_at_radius / calc_radius_at_ee']
        self.stub_components = ['none (public API only)']
        self.rule = ('one run = one image/centre/radii configuration and up '
                     'to 16 operations (first reads in any order, normalize '
                     'max/sum, unnormalize, interpolator calls, re-reads); '
                     'distinct = distinct (set of arrays already read at a '
                     'normalize/unnormalize, call, scene kind) tuples')

    # ------------------------------------------------------------------
    def make_cfg(self, rng, avoid):
        cfg = self._make_cfg(rng, avoid)
        if cfg['method'] != 'subpixel' and rng.chance(0.2):
            # documented as ignored unless method='subpixel'
            cfg['subpixels'] = rng.pick([None, 0, 5.0])
        return cfg

    def _make_cfg(self, rng, avoid):
        return {'kind': rng.pick(['gauss', 'gauss', 'constant', 'nonneg',
                                  'signed']),
                'error': rng.chance(0.6), 'mask': rng.chance(0.4),
                'method': rng.pick(['exact', 'exact', 'center', 'subpixel']),
                'unit': rng.chance(0.2), 'nan': rng.chance(0.25),
                'nan_error': rng.chance(0.25),
                'subpixels': rng.pick([1, 3, 3, 5]),
                'arg_repr': rng.pick(['plain', 'plain', 'list', 'array']),
                'int_data': rng.chance(0.15), 'int_error': rng.chance(0.1),
                'int_mask': rng.chance(0.15),
                'center': rng.pick(['in', 'in', 'in', 'edge', 'out'])}

    def make_scene(self, rng, cfg):
        n = rng.randint(15, 41)
        m = rng.randint(15, 41)
        g = rng.np()
        if cfg['kind'] == 'constant':
            data = np.full((n, m), rng.pick([1.0, 3.25, -2.0]))
        else:
            data = scenes.gaussians((n, m), [
                (m / 2 + rng.uniform(-1, 1), n / 2 + rng.uniform(-1, 1),
                 rng.uniform(10, 100), rng.uniform(1.5, 3.5), 2.5,
                 rng.uniform(0, 3))])
            if cfg['kind'] == 'nonneg':
                data = np.abs(data + g.normal(0, 0.5, data.shape))
                if rng.chance(0.5):
                    # a bright ring far out and zeros elsewhere
                    data[data < 1.0] = 0.0
            elif cfg['kind'] == 'signed':
                data = data + g.normal(0, 2.0, data.shape) - 4.0
            else:
                data = data + g.normal(0, 0.5, data.shape)
        if cfg['nan'] and cfg['kind'] != 'constant':
            for _ in range(rng.randint(1, 3)):
                data[rng.randrange(n), rng.randrange(m)] = rng.pick(
                    [np.nan, np.inf])
        if cfg['center'] == 'in':
            xy = [m / 2 + rng.uniform(-2, 2), n / 2 + rng.uniform(-2, 2)]
            if rng.chance(0.3):
                xy = [float(round(xy[0])), float(round(xy[1]))]
        elif cfg['center'] == 'edge':
            xy = [rng.uniform(-0.5, 2), rng.uniform(0, n)]
        else:
            xy = [-4.0, n / 2]
        nr = rng.randint(3, 10)
        steps = [rng.uniform(0.4, 2.5) for _ in range(nr)]
        if rng.chance(0.3):
            steps = [1.0] * nr
        elif rng.chance(0.15):
            steps[rng.randrange(nr)] = 0.05        # a very thin bin
        if self.variant == 'radial' and rng.chance(0.5):
            r0 = 0.0
        else:
            r0 = rng.uniform(0.3, 2.0)
        radii = [float(x) for x in np.round(r0 + np.cumsum([0.0] + steps),
                                            3)]
        err = np.abs(g.normal(1, 0.2, data.shape)) + 0.1
        if cfg.get('int_data') and not cfg['nan']:
            # integer image (same numbers held as int64 / uint16)
            data = np.round(data * (1 if cfg['kind'] == 'constant' else 3)
                            ).astype(rng.pick(['int64', 'int32', 'uint16'])
                                     if data.min() >= 0 else 'int64')
        if cfg.get('int_error'):
            err = np.round(err * 3 + 1).astype('int64')
        elif cfg.get('nan_error'):
            # non-finite error at pixels whose data are finite: they must
            # be masked automatically, with and without a user mask
            for _ in range(rng.randint(1, 3)):
                err[min(n - 1, max(0, int(xy[1]) + rng.randint(-3, 3))),
                    min(m - 1, max(0, int(xy[0]) + rng.randint(-3, 3)))] = \
                    rng.pick([np.nan, np.inf])
        return {'data': enc(data),
                'error': enc(err),
                'mask': enc(g.random(data.shape) < 0.08), 'xycen': xy,
                'radii': radii}

    def build(self, cfg, sc, data_obj=None, mask_obj=None):
        import astropy.units as u
        from photutils.profiles import CurveOfGrowth, RadialProfile
        data = dec(sc['data']).copy() if data_obj is None else data_obj
        err = dec(sc['error']).copy() if cfg['error'] else None
        if cfg['unit']:
            data = data * u.Jy
            err = err * u.Jy if err is not None else None
        cls = RadialProfile if self.variant == 'radial' else CurveOfGrowth
        rep = cfg.get('arg_repr', 'plain')
        xy = (tuple(sc['xycen']) if rep == 'plain' else
              list(sc['xycen']) if rep == 'list' else np.array(sc['xycen']))
        rad = (np.array(sc['radii']) if rep != 'list' else list(sc['radii']))
        return cls(data, xy, rad,
                   error=err,
                   mask=((dec(sc['mask']).astype(
                       np.uint8 if cfg.get('int_mask') else bool)
                       if mask_obj is None else mask_obj)
                       if cfg['mask'] else None),
                   method=cfg['method'], subpixels=cfg.get('subpixels', 3))

    # ------------------------------------------------------------------
    def _reference(self, cfg, sc):
        """Raw arrays from aperture photometry, one radius at a time."""
        from photutils.aperture import CircularAperture
        data = dec(sc['data'])
        err = dec(sc['error']) if cfg['error'] else None
        mask = dec(sc['mask']).copy() if cfg['mask'] else np.zeros(
            data.shape, bool)
        mask |= ~np.isfinite(data)
        if err is not None:
            mask |= ~np.isfinite(err)
        xy = tuple(sc['xycen'])
        radii = np.array(sc['radii'])
        flux, ferr, area = [], [], []
        for r in radii:
            if r <= 0:
                flux.append(0.0)
                ferr.append(0.0)
                area.append(0.0)
                continue
            ap = CircularAperture(xy, r)
            # subpixels only means something for method='subpixel'
            sp = cfg.get('subpixels', 3) if cfg['method'] == 'subpixel' \
                else 5
            f, e = ap.do_photometry(data, error=err, mask=mask,
                                    method=cfg['method'], subpixels=sp)
            a = ap.area_overlap(data, mask=mask, method=cfg['method'],
                                subpixels=sp)
            flux.append(f[0])
            ferr.append(e[0] if err is not None else np.nan)
            area.append(a)
        flux, ferr, area = map(np.array, (flux, ferr, area))
        ref = {}
        with np.errstate(all='ignore'):
            if self.variant == 'cog':
                ref['radius'] = radii
                ref['profile'] = flux
                ref['profile_error'] = ferr if err is not None else \
                    np.array([])
                ref['area'] = area
            else:
                ref['radius'] = (radii[:-1] + radii[1:]) / 2
                da = np.diff(area)
                ref['area'] = da
                ref['profile'] = np.diff(flux) / da
                if err is not None:
                    ref['profile_error'] = np.sqrt(np.diff(ferr ** 2)) / da
                else:
                    ref['profile_error'] = np.array([])
        if self.variant == 'radial':
            # The statement does not define the raw data profile (only
            # that normalize/unnormalize restore it), so its *raw* value
            # is taken from a never-normalised fresh object and only the
            # normalisation state is modelled here.
            fresh = self.build(cfg, sc)
            ref['data_radius'] = call(getattr, fresh, 'data_radius')
            ref['data_profile'] = call(getattr, fresh, 'data_profile')
        return ref

    def start(self, plan, stats, trace):
        st = _St()
        st.stats, st.trace, st.cfg = stats, trace, plan['cfg']
        st.scene = plan['scene']
        # the caller's image array: one object for the whole run (it is
        # edited in place between two constructions by 'rebuild')
        st.data_obj = dec(st.scene['data']).copy()
        # ... and the caller's mask array: one object, handed to every
        # object built during the run; it must stay what it is
        st.mask_obj = dec(st.scene['mask']).astype(
            np.uint8 if st.cfg.get('int_mask') else bool)
        st.mask0 = st.mask_obj.copy()
        st.obj = call(self.build, st.cfg, st.scene, st.data_obj,
                      st.mask_obj)
        st.dead = isinstance(st.obj, Raised)
        if st.dead:
            stats.probe('constructor_rejected_config')
            return st
        st.ref = self._reference(st.cfg, st.scene)
        st.held = Held()
        st.f = 1.0                 # model normalisation state
        st.nnorm = 0
        st.read = set()
        st.hist = []
        st.degenerate = False
        data = dec(st.scene['data'])
        st.scale = float(np.nanmax(np.abs(np.where(np.isfinite(data), data,
                                                   0)))) or 1.0
        return st

    # ------------------------------------------------------------------
    def next_op(self, rng, st):
        if st.dead:
            return None
        r = rng.random()
        if not st.hist and rng.chance(0.15):
            # before anything was read (the arrays are evaluated lazily)
            r = rng.uniform(0.845, 0.86)
        arrays = ['radius', 'profile', 'profile_error', 'area']
        if self.variant == 'radial':
            arrays += ['data_profile', 'data_radius']
        if r < 0.5:
            return {'op': 'read', 'attr': rng.pick(arrays + ['apertures',
                                                             'normalization_value'])}
        if r < 0.72:
            return {'op': 'normalize',
                    'method': rng.pick(['max', 'sum', 'max', 'bogus'])}
        if r < 0.845:
            return {'op': 'unnormalize'}
        if r < 0.855:
            # the caller takes one of the apertures the object hands out and
            # draws it on a cutout (non-zero origin)
            return {'op': 'aper_plot', 'k': rng.randrange(12),
                    'origin': [rng.uniform(1, 9), rng.uniform(-4, 7)]}
        if r < 0.8575 and self.variant == 'radial':
            # the Gaussian fit of the profile (frozen at its first read) is
            # a read like any other: the arrays stay what they are
            return {'op': 'gauss', 'attr': rng.pick([
                'gaussian_fwhm', 'gaussian_profile', 'gaussian_fit'])}
        if r < 0.86:
            # a typo in an attribute makes a read fail; the caller corrects
            # it and reads again
            return {'op': 'bad_then_fix',
                    'attr': rng.pick(['profile', 'area', 'profile_error'])}
        if r < 0.865:
            # the object goes through copy.deepcopy / pickle (as it does on
            # its way to a worker process) and the clone is used from then on
            return {'op': 'clone', 'how': rng.pick(['deepcopy', 'pickle'])}
        if r < 0.875:
            # the caller repairs or flags a pixel of its image *in place* and
            # builds a new profile object from the same array
            xy = st.scene['xycen']
            shp = st.data_obj.shape
            return {'op': 'rebuild',
                    'pix': [min(shp[0] - 1, max(0, int(xy[1]) + rng.randint(
                        -3, 3))), min(shp[1] - 1, max(0, int(xy[0])
                                                      + rng.randint(-3, 3)))],
                    'value': rng.pick(['nan', 'nan', 'finite'])}
        if r < 0.89:
            # another object of the same class around the same centre, on
            # another image with masked and non-finite pixels, at work in
            # the same process
            return {'op': 'decoy'}
        if self.variant == 'cog':
            return {'op': 'invert', 'i': rng.randrange(len(
                st.scene['radii']))}
        return {'op': 'read', 'attr': rng.pick(arrays)}

    @staticmethod
    def _val(v):
        return np.asarray(getattr(v, 'value', v), dtype=float)

    def _expected(self, st, attr):
        raw = st.ref[attr]
        if isinstance(raw, Raised):
            return raw
        if attr in ('profile', 'profile_error', 'data_profile'):
            with np.errstate(all='ignore'):
                return raw / st.f
        return raw

    def _check_array(self, st, attr, val, where):
        exp = self._expected(st, attr)
        if isinstance(val, Raised):
            if isinstance(exp, Raised) and exp.type == val.type:
                st.stats.probe('raises_like_fresh')
                return
            raise Violation('raises', attr, f'{where}: {val!r}')
        if isinstance(exp, Raised):
            raise Violation('reference', attr,
                            f'{where}: a never-normalised fresh object '
                            f'raises {exp!r}')
        got = self._val(val)
        d = diff(got, np.asarray(exp, dtype=float), RTOL,
                 1e-12 * st.scale, check_dtype=False)
        if d:
            raise Violation('reference', attr,
                            f'{where}: {attr} differs from aperture '
                            f'photometry / normalisation state {st.f!r}: {d}')
        # units: an unnormalised profile carries the data unit
        if st.cfg['unit'] and attr in ('profile', 'profile_error') and \
                st.nnorm == 0 and got.size:
            import astropy.units as u
            if getattr(val, 'unit', None) != u.Jy:
                raise Violation('reference', attr + '_unit',
                                f'{where}: unit {getattr(val, "unit", None)}')

    def step(self, st, op):
        if st.dead:
            raise Inapplicable('dead')
        try:
            self._step(st, op)
        finally:
            pass
        st.held.check(f'by {op.get("op")} {op.get("method", "")} '
                      f'(history {st.hist})')
        if st.mask_obj.dtype != st.mask0.dtype or not np.array_equal(
                st.mask_obj, st.mask0):
            raise Violation('input_modified', 'mask',
                            f'the mask array given to the constructor was '
                            f'changed (by {op.get("op")}, history {st.hist})')

    def _step(self, st, op):
        o = st.obj
        kind = op['op']
        where = f'after {st.hist}'
        if kind == 'read':
            attr = op['attr']
            if attr in ('data_profile', 'data_radius') and \
                    self.variant != 'radial':
                raise Inapplicable(attr)
            val = call(getattr, o, attr)
            st.trace.add('read', attr, digest(val))
            # (normalization_value is a plain attribute that normalize()
            # updates in place for unit-ful data; holding on to it is not
            # what the statement is about)
            if attr not in ('apertures', 'normalization_value'):
                st.held.add(attr, val)
            if attr == 'apertures':
                self._check_apertures(st, val)
            elif attr == 'normalization_value':
                if isinstance(val, Raised):
                    raise Violation('raises', attr, repr(val))
                if not st.degenerate:
                    d = diff(self._val(val), np.asarray(st.f), 1e-9, 0.0,
                             check_dtype=False)
                    if d:
                        raise Violation('reference', attr,
                                        f'{where}: {val!r} vs model '
                                        f'{st.f!r}')
            elif not st.degenerate:
                self._check_array(st, attr, val, where)
                self._semantic(st, attr, val)
            st.read.add(attr)
            st.hist.append(attr)
            return
        if kind == 'normalize':
            m = op['method']
            if m == 'bogus':
                out = call(o.normalize, m)
                st.stats.fault('reject')
                if not isinstance(out, Raised):
                    raise Violation('reject', 'normalize',
                                    'invalid method accepted')
                return
            st.stats.sig(f'{self.variant}|{sorted(st.read)}|N{m}|'
                         f'{st.cfg["kind"]}')
            if 'data_profile' not in st.read and self.variant == 'radial':
                st.stats.probe('normalize_before_data_profile')
            if 'profile' not in st.read:
                st.stats.probe('normalize_before_profile')
            out = call(o.normalize, m)
            if isinstance(out, Raised):
                raise Violation('raises', 'normalize', f'{where}: {out!r}')
            with np.errstate(all='ignore'):
                cur = st.ref['profile'] / st.f
                fin = cur[~np.isnan(cur)]
                if fin.size == 0:
                    norm = np.nan
                else:
                    norm = fin.max() if m == 'max' else fin.sum()
            if not np.isfinite(norm):
                # infinite / undefined normalisation (bin without area):
                # nothing can be asserted about the arrays afterwards
                st.degenerate = True
                st.stats.probe('degenerate_normalisation')
            elif norm == 0:
                st.stats.probe('zero_normalisation')
            else:
                st.f = st.f * norm
                st.nnorm += 1
                if st.nnorm >= 2:
                    st.stats.probe('double_normalize')
            st.hist.append('N' + m)
            return
        if kind == 'unnormalize':
            st.stats.sig(f'{self.variant}|{sorted(st.read)}|U|'
                         f'{st.cfg["kind"]}')
            out = call(o.unnormalize)
            if isinstance(out, Raised):
                raise Violation('raises', 'unnormalize', f'{where}: {out!r}')
            st.hist.append('U')
            if st.degenerate:
                return
            st.f = 1.0
            nv = call(getattr, o, 'normalization_value')
            if isinstance(nv, Raised) or float(self._val(nv)) != 1.0:
                raise Violation('restore', 'normalization_value',
                                f'{where}: {nv!r} after unnormalize')
            # every array equals its raw value again, whenever first read
            names = ['profile', 'profile_error']
            if self.variant == 'radial':
                names.append('data_profile')
            for a in names:
                if a in st.read or a != 'data_profile':
                    v = call(getattr, o, a)
                    self._check_array(st, a, v, where + ' (restored)')
                    st.read.add(a)
            return
        if kind == 'aper_plot':
            aps = call(getattr, o, 'apertures')
            if isinstance(aps, Raised) or not len(aps):
                return
            ap = aps[op['k'] % len(aps)]
            if ap is not None:
                from matplotlib.figure import Figure
                call(ap.plot, ax=Figure().subplots(),
                     origin=tuple(op['origin']))
                st.stats.probe('handed_out_aperture_plotted')
            st.hist.append('aplot')
            return
        if kind == 'gauss':
            if self.variant != 'radial':
                raise Inapplicable('gauss')
            call(getattr, o, op['attr'])
            st.stats.probe('gaussian_fit_read')
            st.hist.append('gauss')
            return
        if kind == 'bad_then_fix':
            good = o.method
            o.method = 'centre'           # not a valid method
            bad = call(getattr, o, op['attr'])
            o.method = good
            if isinstance(bad, Raised):
                st.stats.fault('reject')
            st.hist.append('typo')
            return
        if kind == 'clone':
            import copy as _c
            import pickle as _p
            new = call((lambda: _c.deepcopy(o)) if op['how'] == 'deepcopy'
                       else (lambda: _p.loads(_p.dumps(o))))
            if isinstance(new, Raised):
                raise Violation('raises', op['how'], repr(new))
            st.obj = new
            st.hist.append('clone')
            st.stats.probe('object_cloned_' + op['how'])
            return
        if kind == 'rebuild':
            y, x = op['pix']
            d = st.data_obj
            if not (0 <= y < d.shape[0] and 0 <= x < d.shape[1]):
                raise Inapplicable('pixel')
            if op['value'] == 'nan' and d.dtype.kind == 'f':
                d[y, x] = np.nan
            else:
                d[y, x] = 2 if d.dtype.kind != 'f' else 1.5
            st.scene = dict(st.scene, data=enc(d))
            new = call(self.build, st.cfg, st.scene, d, st.mask_obj)
            if isinstance(new, Raised):
                raise Violation('raises', 'constructor',
                                f'rebuilding from the edited image: {new!r}')
            st.obj = new
            st.ref = self._reference(st.cfg, st.scene)
            st.f, st.nnorm, st.read, st.degenerate = 1.0, 0, set(), False
            st.hist = ['rebuilt']
            st.rebuilt = True        # the image is no longer 'constant'
            st.stats.probe('rebuilt_from_same_array_edited_in_place')
            return
        if kind == 'decoy':
            sc2 = dict(st.scene)
            d = dec(st.scene['data']).astype(float) * 1.3 + 0.7
            yy, xx = np.indices(d.shape)
            d[(xx + 3 * yy) % 11 == 0] = np.nan
            sc2['data'] = enc(d)
            sc2['mask'] = enc((xx + 2 * yy) % 5 == 0)
            cfg2 = dict(st.cfg, mask=True, int_data=False, unit=False)
            other = call(self.build, cfg2, sc2)
            if not isinstance(other, Raised):
                for attr in ('profile', 'area', 'profile_error'):
                    call(getattr, other, attr)
                call(other.normalize)
            st.stats.probe('decoy_instance_used')
            return
        if kind == 'invert':
            if self.variant != 'cog':
                raise Inapplicable('invert')
            self._invert(st, op['i'], where)
            return
        raise Inapplicable(kind)

    def _semantic(self, st, attr, val):
        """Clauses with a premise on the scene."""
        cfg = st.cfg
        if isinstance(val, Raised) or attr != 'profile' or st.degenerate:
            return
        got = self._val(val)
        if cfg['kind'] == 'constant' and self.variant == 'radial' and \
                not cfg['nan'] and not getattr(st, 'rebuilt', False):
            c = float(dec(st.scene['data']).flat[0])
            if cfg.get('int_data'):
                st.stats.probe('constant_integer_image')
            area = st.ref['area']
            exp = c / st.f
            for i, a in enumerate(area):
                # only bins that hold whole-pixel-scale area are asserted
                if a > 1e-3 and abs(got[i] - exp) > 1e-7 * max(1, abs(exp)):
                    raise Violation('constant_image', 'profile',
                                    f'bin {i}: {got[i]!r} for a constant '
                                    f'image of {c} (area {a})')
            st.stats.probe('constant_image_checked')
        if cfg['kind'] in ('nonneg', 'constant') and self.variant == 'cog':
            data = dec(st.scene['data'])
            fin = data[np.isfinite(data)]
            if fin.size and fin.min() >= 0 and st.f > 0:
                tol = 1e-9 * st.scale * max(1.0, np.nanmax(np.abs(got)))
                dd = np.diff(got)
                if np.any(dd < -tol):
                    raise Violation('monotone', 'profile',
                                    f'curve of growth of non-negative data '
                                    f'decreases: {got}')
                st.stats.probe('monotone_checked')

    def _check_apertures(self, st, val):
        if isinstance(val, Raised):
            raise Violation('raises', 'apertures', repr(val))
        radii = st.scene['radii']
        xy = st.scene['xycen']
        if self.variant == 'cog':
            exp = [(None if r <= 0 else ('CircularAperture', r))
                   for r in radii]
        else:
            exp = []
            for a, b in zip(radii[:-1], radii[1:]):
                exp.append(('CircularAperture', b) if a <= 0 else
                           ('CircularAnnulus', a, b))
        if len(val) != len(exp):
            raise Violation('reference', 'apertures',
                            f'{len(val)} apertures for {len(exp)} bins')
        for ap, e in zip(val, exp):
            if e is None:
                if ap is not None:
                    raise Violation('reference', 'apertures', 'expected None')
                continue
            ok = type(ap).__name__ == e[0] and np.allclose(
                np.ravel(ap.positions), xy)
            if ok and e[0] == 'CircularAperture':
                ok = ap.r == e[1]
            elif ok:
                ok = ap.r_in == e[1] and ap.r_out == e[2]
            if not ok:
                raise Violation('reference', 'apertures', f'{ap!r} vs {e}')

    def _invert(self, st, i, where):
        """calc_radius_at_ee(calc_ee_at_radius(r_i)) == r_i on the monotone
        part of the curve."""
        o = st.obj
        radii = np.array(st.scene['radii'])
        if i >= len(radii):
            raise Inapplicable('index')
        if st.degenerate:
            return
        with np.errstate(all='ignore'):
            prof = st.ref['profile'] / st.f
        if not np.all(np.isfinite(prof)):
            # no statement about the values of the interpolators on such a
            # curve (the pinned tree raises), but the calls are made: what
            # the object reports before and afterwards is checked as ever
            call(o.calc_ee_at_radius, float(radii[i]))
            fin = prof[np.isfinite(prof)]
            call(o.calc_radius_at_ee, float(fin[0]) if fin.size else 1.0)
            st.stats.probe('invert_called_on_nonfinite_curve')
            st.hist.append('inv!')
            return
        r = float(radii[i])
        ee = call(o.calc_ee_at_radius, r)
        st.trace.add('ee', digest(ee))
        if isinstance(ee, Raised):
            raise Violation('raises', 'calc_ee_at_radius', f'{where}: {ee!r}')
        ee_obj = ee                      # what the caller holds (any type)
        ee = call(lambda: float(self._val(ee_obj)))
        if isinstance(ee, Raised):
            raise Violation('reference', 'calc_ee_at_radius',
                            f'{where}: ee({r}) = {ee_obj!r} is not a number')
        d = diff(np.asarray(float(ee)), np.asarray(float(prof[i])), 1e-9,
                 1e-12 * st.scale, check_dtype=False)
        if d:
            raise Violation('reference', 'calc_ee_at_radius',
                            f'{where}: ee({r}) = {ee!r}, profile there is '
                            f'{prof[i]!r}')
        # strictly increasing prefix of the curve - taken from the values the
        # object itself holds (they are what its interpolators see): the
        # model's raw/state differs from them by rounding, which decides
        # whether two nearly equal samples count as increasing
        pobj0 = call(getattr, o, 'profile')
        if isinstance(pobj0, Raised):
            raise Violation('raises', 'profile', repr(pobj0))
        prof = self._val(pobj0)
        if prof.shape != radii.shape or not np.all(np.isfinite(prof)):
            return
        dd = np.diff(prof) <= 0
        last = int(np.argmax(dd)) if np.any(dd) else len(prof) - 1
        # the interpolated value at a knot may differ from the sample by an
        # ulp, which at either end of the monotone part falls outside the
        # inverse interpolator's domain: clip to the sampled range
        eec = float(min(max(float(ee), float(prof[0])), float(prof[last]))
                    if last >= 1 else float(ee))
        pobj = call(getattr, o, 'profile')
        if not isinstance(pobj, Raised):
            pv = self._val(pobj)
            eec = float(min(max(eec, pv[0]), pv[last])) if last >= 1 else eec
        # the caller feeds the output of one interpolator into the other:
        # the object it got back, unless it had to be clipped
        back = call(o.calc_radius_at_ee,
                    ee_obj if eec == float(ee) else eec)
        st.trace.add('rad', digest(back))
        if last < 1:
            # fewer than two monotone samples: the interpolator may refuse
            st.stats.probe('invert_no_monotone_part')
            return
        if i > last:
            return
        # conditioning: the inverse is only determined to rounding where the
        # curve actually rises between neighbouring samples
        pscale = float(np.max(np.abs(prof))) or 1.0
        gaps = []
        if i >= 1:
            gaps.append(prof[i] - prof[i - 1])
        if i < last:
            gaps.append(prof[i + 1] - prof[i])
        if gaps and min(gaps) <= 1e-7 * pscale:
            st.stats.probe('inverse_ill_conditioned')
            return
        if i == last and 'cog-monotone-last-sample' in st.cfg.get(
                'avoid', []):
            return
        if isinstance(back, Raised):
            raise Violation('inverse', 'calc_radius_at_ee',
                            f'{where}: sample {i} of monotone prefix '
                            f'0..{last}: {back!r}')
        # the ee value must be attained only once on the whole curve for
        # the inverse to be the sampled radius
        tol = 1e-7 * max(1.0, r)
        bv = call(lambda: float(self._val(back)))
        if isinstance(bv, Raised) or not np.isfinite(bv) or \
                abs(bv - r) > tol:
            raise Violation('inverse', 'calc_radius_at_ee',
                            f'{where}: radius_at_ee(ee_at_radius({r})) = '
                            f'{back!r} (sample {i}, monotone prefix '
                            f'0..{last}, profile {prof})')
        st.stats.probe('inverse_checked')
        if i == last and np.any(dd):
            st.stats.probe('inverse_checked_at_last_monotone_sample')

    def finish(self, st):
        if st.dead or st.degenerate:
            return
        names = ['profile', 'profile_error', 'area', 'radius']
        if self.variant == 'radial':
            names += ['data_profile', 'data_radius']
        for a in names:
            self._check_array(st, a, call(getattr, st.obj, a), 'at the end')

    def nontrivial(self, plan, st):
        return (not st.dead) and len(st.hist) >= 2

    def simpler_scenes(self, plan):
        cfg = plan['cfg']
        for k, v in (('mask', False), ('error', False), ('unit', False),
                     ('nan', False), ('method', 'exact')):
            if cfg.get(k) != v and k in cfg:
                p = dict(plan)
                p['cfg'] = {**cfg, k: v}
                yield p
