"""C13 (history clause) - ImagePSF and GriddedPSFModel interpolate their data
faithfully, independent of evaluation history.  Also serves C09 (gridded
family) with the same fresh-model oracle.

Actors: a family of models (original, copy(), deepcopy()) sharing the data
array and the interpolator cache.  Reference model: scipy
RectBivariateSpline per stored image + independently computed bilinear
weights (no photutils model code), plus a freshly constructed model.
"""

from __future__ import annotations

import numpy as np

from simphot import scenes
from simphot.compare import diff, digest
from simphot.kernel import (Held, Inapplicable, Machine, Raised, Violation,
                            call, dec, enc)

RTOL = 1e-9


def _fv(v):
    """Plans are JSON: non-finite fill values are spelled as strings."""
    return float(v) if isinstance(v, str) else v


class _Actor:
    def __init__(self, model, params, attrs, share):
        self.model = model
        self.p = dict(params)        # flux, x_0, y_0 (reference state)
        self.a = dict(attrs)         # fill_value, origin (image only)
        self.share = share           # id of the cache-sharing group


class _St:
    pass


class PSFModelMachine(Machine):
    max_ops = 22

    def __init__(self, variant='image', pid='C13'):
        self.variant = variant
        self.pid = pid
        self.name = f'psfmodel-{variant}'
        self.real_components = [
            'ImagePSF (lazy interpolator, copy/deepcopy, origin, '
            'oversampling, fill_value)' if variant == 'image' else
            'GriddedPSFModel (cell lookup, bilinear weights, interpolator '
            'cache shared by copies)', 'astropy Model.__call__ / Parameter']
        self.stub_components = ['none (public API only)']
        self.rule = ('one run = one model (grid layout, oversampling, '
                     'origin, shape) and up to 22 operations by any member '
                     'of the model family (parameter assignment, evaluation '
                     'on integer / fractional / knot-aligned / outside '
                     'grids, copy, deepcopy, bounding_box, rejected call); '
                     'distinct = distinct (cell or region visited, via '
                     'original/copy/deepcopy, cache state, grid kind) tuples')

    # ------------------------------------------------------------------
    def make_cfg(self, rng, avoid):
        ovs = rng.pick([1, 2, 3, 4, [2, 3], [1, 4]])
        cfg = {'oversampling': ovs,
               'fill_value': rng.pick([0.0, 0.0, None, -1.0, 0, -1, 'nan',
                                     'nan', 'inf']),
               'shape': [rng.pick([7, 8, 9, 12, 13]),
                         rng.pick([7, 8, 9, 12, 13])]}
        if self.variant == 'image':
            cfg['origin'] = rng.pick([None, None, 'custom'])
        else:
            cfg['nxg'] = rng.pick([2, 2, 3, 4])
            cfg['nyg'] = rng.pick([2, 2, 3])
            cfg['uniform'] = rng.chance(0.5)
            cfg['shuffle'] = rng.chance(0.6)
            # reference positions in normalised field coordinates (less
            # than a pixel apart) as well as in detector pixels
            cfg['grid_scale'] = rng.pick([1.0, 1.0, 1.0, 0.01])
        return cfg

    def make_scene(self, rng, cfg):
        ny, nx = cfg['shape']
        sc = {}
        if self.variant == 'image':
            g = rng.np()
            img = scenes.gaussians((ny, nx), [((nx - 1) / 2 + rng.uniform(
                -0.5, 0.5), (ny - 1) / 2, 1.0, nx / 6, ny / 7,
                rng.uniform(0, 3))])
            img += g.normal(0, 0.01, img.shape)
            sc['data'] = enc(img)
            if cfg['origin'] == 'custom':
                sc['origin'] = [rng.uniform(1, nx - 2),
                                rng.uniform(1, ny - 2)]
            return sc
        nxg, nyg = cfg['nxg'], cfg['nyg']
        if cfg['uniform']:
            xg = [10.0 * i for i in range(nxg)]
            yg = [12.0 * i for i in range(nyg)]
        else:
            xg = list(np.round(np.cumsum([rng.uniform(4, 30)
                                          for _ in range(nxg)]), 2))
            yg = list(np.round(np.cumsum([rng.uniform(4, 30)
                                          for _ in range(nyg)]) - 20, 2))
        sc_ = cfg.get('grid_scale', 1.0)
        xg = [round(float(x) * sc_, 6) for x in xg]
        yg = [round(float(y) * sc_, 6) for y in yg]
        pos = [[float(x), float(y)] for y in yg for x in xg]
        if cfg['shuffle']:
            rng.shuffle(pos)
        psfs = []
        for k in range(len(pos)):
            psfs.append(scenes.gaussians((ny, nx), [(
                (nx - 1) / 2, (ny - 1) / 2, 1.0 + 0.3 * k,
                nx / rng.uniform(4, 8), ny / rng.uniform(4, 8),
                rng.uniform(0, 3))]) + 0.01 * k)
        sc['data'] = enc(np.array(psfs))
        sc['grid_xypos'] = pos
        return sc

    # ------------------------------------------------------------------
    def _build(self, st, params, attrs):
        cfg, sc = st.cfg, st.scene
        ovs = cfg['oversampling']
        if isinstance(ovs, list):
            ovs = tuple(ovs)
        if attrs.get('ovs') is not None:
            ovs = tuple(attrs['ovs'])
        if self.variant == 'image':
            from photutils.psf import ImagePSF
            return ImagePSF(dec(sc['data']).copy(), flux=params['flux'],
                            x_0=params['x_0'], y_0=params['y_0'],
                            origin=attrs.get('origin'), oversampling=ovs,
                            fill_value=_fv(attrs['fill_value']))
        from astropy.nddata import NDData
        from photutils.psf import GriddedPSFModel
        meta = {'grid_xypos': [tuple(p) for p in sc['grid_xypos']],
                'oversampling': ovs}
        nd = NDData(dec(sc['data']).copy(), meta=meta)
        return GriddedPSFModel(nd, flux=params['flux'], x_0=params['x_0'],
                               y_0=params['y_0'],
                               fill_value=_fv(attrs['fill_value']))

    def start(self, plan, stats, trace):
        from scipy.interpolate import RectBivariateSpline
        st = _St()
        st.stats, st.trace, st.cfg = stats, trace, plan['cfg']
        st.scene = plan['scene']
        cfg = st.cfg
        data = dec(st.scene['data'])
        ovs = cfg['oversampling']
        st.ovs = (ovs, ovs) if not isinstance(ovs, list) else tuple(ovs)
        ny, nx = cfg['shape']
        st.nx, st.ny = nx, ny
        xk, yk = np.arange(nx), np.arange(ny)
        if self.variant == 'image':
            st.splines = [RectBivariateSpline(xk, yk, data.T, kx=3, ky=3,
                                              s=0)]
            st.images = [data]
        else:
            st.splines = [RectBivariateSpline(xk, yk, d.T, kx=3, ky=3, s=0)
                          for d in data]
            st.images = list(data)
            pos = np.array(st.scene['grid_xypos'])
            st.pos = pos
            st.xg = np.unique(pos[:, 0])
            st.yg = np.unique(pos[:, 1])
        st.scale = float(np.max(np.abs(data)))
        params = {'flux': 1.0, 'x_0': 0.0, 'y_0': 0.0}
        attrs = {'fill_value': cfg['fill_value'], 'ovs': list(st.ovs)}
        if self.variant == 'image':
            attrs['origin'] = st.scene.get('origin')
        m = call(self._build, st, params, attrs)
        if isinstance(m, Raised):
            raise Inapplicable(f'constructor: {m!r}')
        st.actors = [_Actor(m, params, attrs, 0)]
        st.nshare = 1
        st.visited = {}          # share group -> set of cells evaluated
        st.neval = 0
        st.held = Held(limit=12)     # arrays the models handed out
        return st

    # ------------------------------------------------------------------
    def next_op(self, rng, st):
        k = rng.randrange(len(st.actors))
        a = st.actors[k]
        r = rng.random()
        if r < 0.06:
            names = ['fill_value']
            if self.variant == 'gridded':
                names += ['oversampling', 'oversampling']
            else:
                names += ['origin', 'oversampling']
            nm = rng.pick(names)
            if nm == 'fill_value':
                val = rng.pick([0.0, None, -1.0, 2.5, 0, -999, 'nan', '-inf'])
            elif nm == 'oversampling':
                val = rng.pick([1, 2, 3, [2, 3], 4])
            else:
                val = rng.pick([None, [rng.uniform(1, st.nx - 2),
                                       rng.uniform(1, st.ny - 2)],
                                'bad3', 'badnan'])
            return {'op': 'setattr', 'actor': k, 'name': nm, 'value': val}
        if r < 0.30:
            return self._gen_set(rng, st, k)
        if r < 0.80:
            op = {'op': 'eval', 'actor': k,
                  'grid': rng.pick(['int', 'frac', 'knot', 'knot',
                                    'outside', 'line', 'scalar',
                                    'broadcast', 'border']),
                  'n': rng.randint(2, 6),
                  'jit': [rng.uniform(-0.5, 0.5), rng.uniform(-0.5, 0.5)],
                  'layout': rng.pick(['c', 'c', 'c', 'f', 'strided',
                                      'transposed'])}
            if rng.chance(0.15):
                # the way fitters use a model: evaluate(x, y, *trial_params)
                # with parameters that differ from the stored ones
                tp = self._gen_set(rng, st, k)
                v = tp['value'] if tp['name'] == 'xy' else None
                op['direct'] = {
                    'flux': rng.pick([1.0, 3.5]),
                    'x_0': v[0] if v else rng.uniform(-3, 20),
                    'y_0': v[1] if v else rng.uniform(-3, 20)}
            return op
        if r < 0.88 and len(st.actors) < 5:
            return {'op': rng.pick(['copy', 'copy', 'deepcopy']), 'actor': k}
        if r < 0.94:
            return {'op': 'bbox', 'actor': k}
        if r < 0.97 and self.variant == 'gridded':
            return {'op': 'reject3d', 'actor': k}
        if r < 0.985:
            return {'op': 'decoy', 'actor': k}
        if r < 0.99 and self.variant == 'gridded':
            # looking at the grid of ePSFs is a read
            return {'op': 'plot_grid', 'actor': k,
                    'deltas': rng.chance(0.6), 'peak_norm': rng.chance(0.4)}
        if r < 0.9925:
            # printing a model is a read
            return {'op': 'describe', 'actor': k,
                    'how': rng.pick(['str', 'str', 'repr'])}
        if r < 0.995:
            # forced photometry: a parameter is held fixed (no effect on
            # what the model evaluates to, nor on its relatives)
            return {'op': 'fix', 'actor': k,
                    'name': rng.pick(['x_0', 'y_0', 'flux']),
                    'value': rng.chance(0.8)}
        return self._gen_set(rng, st, k)

    def _gen_set(self, rng, st, k):
        name = rng.pick(['x_0', 'y_0', 'flux', 'xy', 'xy', 'xy'])
        if name == 'flux':
            return {'op': 'set', 'actor': k, 'name': 'flux',
                    'value': rng.pick([1.0, 2.5, 0.0, -3.0, 1e3])}
        if self.variant == 'image' or rng.chance(0.25):
            val = [rng.uniform(-5, 25), rng.uniform(-5, 25)]
        else:
            xg, yg = st.xg, st.yg
            kind = rng.pick(['at', 'at', 'in', 'in', 'edge', 'out', 'far'])

            def pick(g):
                lo, hi = float(g[0]), float(g[-1])
                if kind == 'at':
                    return float(rng.pick(list(g)))
                if kind == 'in' or kind == 'edge':
                    i = rng.randrange(max(1, len(g) - 1))
                    j = min(i + 1, len(g) - 1)
                    return rng.uniform(float(g[i]), float(g[j]))
                if kind == 'out':
                    return rng.pick([lo - rng.uniform(0.1, 5),
                                     hi + rng.uniform(0.1, 5)])
                return rng.pick([lo - 500.0, hi + 500.0])
            val = [pick(xg), pick(yg)]
            if kind == 'edge':
                val[rng.randrange(2)] = float(rng.pick(
                    list(xg if rng.chance(0.5) else yg)))
        if name == 'x_0':
            return {'op': 'set', 'actor': k, 'name': 'x_0', 'value': val[0]}
        if name == 'y_0':
            return {'op': 'set', 'actor': k, 'name': 'y_0', 'value': val[1]}
        return {'op': 'set', 'actor': k, 'name': 'xy', 'value': val}

    # ------------------------------------------------------------------
    def _coords(self, st, a, op):
        """Evaluation coordinates for the op, relative to the actor's
        current centre."""
        x0, y0 = a.p['x_0'], a.p['y_0']
        n = op['n']
        kind = op['grid']
        jx, jy = op['jit']
        oy, ox = a.a.get('ovs') or st.ovs
        if self.variant == 'image' and a.a.get('origin') is not None:
            orx, ory = a.a['origin']
        else:
            orx, ory = (st.nx - 1) / 2, (st.ny - 1) / 2
        if kind == 'int':
            xs = np.arange(np.floor(x0) - n, np.floor(x0) + n + 1)
            ys = np.arange(np.floor(y0) - n, np.floor(y0) + n + 1)
            return np.meshgrid(xs, ys)
        if kind == 'frac':
            xs = x0 + np.linspace(-2, 2, n + 2) + jx
            ys = y0 + np.linspace(-2, 2, n + 1) + jy
            return np.meshgrid(xs, ys)
        if kind == 'knot':
            # points that map onto integer oversampled pixel indices
            ii = np.arange(st.nx)
            jj = np.arange(st.ny)
            xs = x0 + (ii - orx) / ox
            ys = y0 + (jj - ory) / oy
            return np.meshgrid(xs, ys)
        if kind == 'outside':
            hx = st.nx / ox
            hy = st.ny / oy
            xs = x0 + np.array([-hx, -hx / 2 - 0.01, 0.0, hx / 2 + 0.01, hx])
            ys = y0 + np.array([-hy, 0.0, hy])
            return np.meshgrid(xs, ys)
        if kind == 'broadcast':
            # row vector against column vector (numpy broadcasting)
            xs = x0 + np.linspace(-2, 2, n + 2) + jx
            ys = y0 + np.linspace(-1.5, 1.5, n + 1) + jy
            return xs[np.newaxis, :], ys[:, np.newaxis]
        if kind == 'border':
            # points exactly on and just beyond the footprint border
            ex = (st.nx - 1 - orx) / ox
            ey = (st.ny - 1 - ory) / oy
            xs = x0 + np.array([-orx / ox, -orx / ox - 1e-9, ex, ex + 1e-9,
                                0.0])
            ys = y0 + np.array([-ory / oy, ey, 0.0])
            return np.meshgrid(xs, ys)
        if kind == 'line':
            xs = x0 + np.linspace(-3, 3, 2 * n + 1) + jx
            return xs, np.full_like(xs, y0 + jy)
        return np.array(x0 + jx), np.array(y0 + jy)     # scalar

    def _reference(self, st, a, x, y):
        """flux * (bilinear blend of) spline(s) at oversampled index
        coordinates; fill_value outside the footprint."""
        x = np.asarray(x, dtype=float)
        y = np.asarray(y, dtype=float)
        x0, y0, flux = a.p['x_0'], a.p['y_0'], a.p['flux']
        oy, ox = a.a.get('ovs') or st.ovs
        if self.variant == 'image' and a.a.get('origin') is not None:
            orx, ory = a.a['origin']
        else:
            orx, ory = (st.nx - 1) / 2, (st.ny - 1) / 2
        xi = ox * (x - x0) + orx
        yi = oy * (y - y0) + ory
        if self.variant == 'image':
            val = st.splines[0](xi, yi, grid=False)
            cell = 'img'
        else:
            xg, yg = st.xg, st.yg

            def bracket(g, v):
                if len(g) == 1:
                    return 0, 0, 1.0, 0.0
                i = int(np.searchsorted(g, v, side='left')) - 1
                i = min(max(i, 0), len(g) - 2)
                lo, hi = g[i], g[i + 1]
                vc = min(max(v, lo), hi)
                t = (vc - lo) / (hi - lo)
                return i, i + 1, 1.0 - t, t
            ix0, ix1, wx0, wx1 = bracket(xg, x0)
            iy0, iy1, wy0, wy1 = bracket(yg, y0)
            val = 0.0
            for (ix, wx) in ((ix0, wx0), (ix1, wx1)):
                for (iy, wy) in ((iy0, wy0), (iy1, wy1)):
                    w = wx * wy
                    if w == 0:
                        continue
                    k = int(np.where((st.pos[:, 0] == xg[ix])
                                     & (st.pos[:, 1] == yg[iy]))[0][0])
                    val = val + w * st.splines[k](xi, yi, grid=False)
            cell = (ix0, iy0,
                    'L' if x0 < xg[0] else 'R' if x0 > xg[-1] else '',
                    'B' if y0 < yg[0] else 'T' if y0 > yg[-1] else '')
        val = np.asarray(flux * val, dtype=float)
        fv = _fv(a.a['fill_value'])
        if fv is not None:
            invalid = ((xi < 0) | (xi > st.nx - 1) | (yi < 0)
                       | (yi > st.ny - 1))
            val = np.where(invalid, fv, val)
        return val, cell, xi, yi

    # ------------------------------------------------------------------
    def step(self, st, op):
        k = op.get('actor', 0)
        if k >= len(st.actors):
            raise Inapplicable('actor')
        a = st.actors[k]
        m = a.model
        kind = op['op']
        self._step(st, op, a, m, kind)
        st.held.check(f'by {kind}')

    def _step(self, st, op, a, m, kind):
        if kind == 'plot_grid':
            if self.variant != 'gridded':
                raise Inapplicable(kind)
            import matplotlib.pyplot as plt
            out = call(m.plot_grid, deltas=bool(op['deltas']),
                       peak_norm=bool(op['peak_norm']))
            plt.close('all')
            st.stats.probe('grid_plotted' if not isinstance(out, Raised)
                           else 'grid_plot_raised')
            return
        if kind == 'describe':
            out = call(str if op['how'] == 'str' else repr, m)
            if isinstance(out, Raised):
                raise Violation('raises', op['how'], repr(out))
            st.stats.probe('model_printed')
            return
        if kind == 'fix':
            out = call(lambda: setattr(getattr(m, op['name']), 'fixed',
                                       bool(op['value'])))
            if isinstance(out, Raised):
                raise Violation('raises', 'fixed', repr(out))
            st.stats.probe('parameter_fixed')
            return
        if kind == 'set':
            nm, v = op['name'], op['value']
            if nm == 'xy':
                o1 = call(setattr, m, 'x_0', v[0])
                o2 = call(setattr, m, 'y_0', v[1])
                out = o1 if isinstance(o1, Raised) else o2
                a.p['x_0'], a.p['y_0'] = v
            else:
                out = call(setattr, m, nm, v)
                a.p[nm] = v
            if isinstance(out, Raised):
                raise Violation('raises', 'set_' + nm, repr(out))
            return
        if kind == 'setattr':
            nm, v = op['name'], op['value']

            if nm == 'origin' and self.variant != 'image':
                raise Inapplicable(nm)
            a.a = dict(a.a)
            if nm == 'oversampling' and self.variant == 'image':
                # a plain attribute of ImagePSF, kept as a (y, x) pair
                pair = np.array(v if isinstance(v, list) else [v, v])
                out = call(setattr, m, 'oversampling', pair)
                a.a['ovs'] = [int(pair[0]), int(pair[1])]
            elif nm == 'oversampling':
                out = call(setattr, m, 'oversampling',
                           tuple(v) if isinstance(v, list) else v)
                a.a['ovs'] = list(v) if isinstance(v, list) else [v, v]
            elif nm == 'origin' and v in ('bad3', 'badnan'):
                # rejected assignment: must raise and leave the model as
                # it was (checked by every later evaluation)
                bad = [1.0, 2.0, 3.0] if v == 'bad3' else [np.nan, 2.0]
                out = call(setattr, m, 'origin', bad)
                st.stats.fault('reject')
                if not isinstance(out, Raised):
                    raise Violation('reject', 'origin',
                                    f'origin={bad} accepted')
                return
            elif nm == 'origin':
                out = call(setattr, m, 'origin', v)
                a.a['origin'] = v
            else:
                out = call(setattr, m, 'fill_value', _fv(v))
                a.a['fill_value'] = v
            if isinstance(out, Raised):
                raise Violation('raises', 'set_' + nm, repr(out))
            st.stats.probe('attribute_assigned')
            if len(st.actors) > 1:
                st.stats.probe('attribute_assigned_in_family')
            return
        if kind in ('copy', 'deepcopy'):
            c = call(getattr(m, kind))
            if isinstance(c, Raised):
                raise Violation('raises', kind, repr(c))
            share = a.share if kind == 'copy' else st.nshare
            if kind == 'deepcopy':
                st.nshare += 1
                st.visited[share] = set(st.visited.get(a.share, ()))
            st.actors.append(_Actor(c, a.p, a.a, share))
            st.actors[-1].kind = kind
            return
        if kind == 'bbox':
            bb = call(lambda: m.bounding_box)
            if isinstance(bb, Raised):
                raise Violation('raises', 'bounding_box', repr(bb))
            oy, ox = a.a.get('ovs') or st.ovs
            dx, dy = st.nx / 2 / ox, st.ny / 2 / oy
            xs = ys = 0.0
            if self.variant == 'image' and a.a.get('origin') is not None:
                xs = ((st.nx - 1) / 2 - a.a['origin'][0]) / ox
                ys = ((st.ny - 1) / 2 - a.a['origin'][1]) / oy
            exp = ((a.p['y_0'] - dy + ys, a.p['y_0'] + dy + ys),
                   (a.p['x_0'] - dx + xs, a.p['x_0'] + dx + xs))
            got = tuple(tuple(float(v) for v in iv)
                        for iv in bb.bounding_box())
            d = diff(np.array(got), np.array(exp), 1e-12, 1e-12)
            if d:
                raise Violation('reference', 'bounding_box',
                                f'{got} vs {exp}')
            return
        if kind == 'decoy':
            # another, unrelated model of the same class in the same
            # process: same grid / shape, different pixel values, evaluated
            # where this family is evaluated.  Nothing it does may change
            # what the models under test return.
            import copy as _c
            sc2 = dict(st.scene)
            d = dec(st.scene['data'])
            sc2['data'] = enc(d[..., ::-1, ::-1] * 1.7 + 0.013)
            st2 = _c.copy(st)
            st2.scene = sc2
            other = call(self._build, st2, a.p, a.a)
            if not isinstance(other, Raised):
                x, y = self._coords(st, a, {'grid': 'frac', 'n': 3,
                                            'jit': [0.1, -0.2]})
                call(other, x, y)
                call(other.copy(), x, y)
            st.stats.probe('decoy_instance_evaluated')
            return
        if kind == 'reject3d':
            x = np.zeros((2, 2, 2))
            out = call(m, x, x)
            st.stats.fault('reject')
            if not isinstance(out, Raised):
                raise Violation('reject', 'evaluate_3d',
                                '3-D coordinates accepted')
            return
        if kind != 'eval':
            raise Inapplicable(kind)
        direct = op.get('direct')
        if direct:
            # temporary reference actor carrying the trial parameters; the
            # model's stored parameters stay what they are
            import copy as _c
            stored = a
            a = _c.copy(a)
            a.p = dict(direct)
            x, y = self._coords(st, a, op)
            # fitters hand evaluate() arrays (Model.__call__ converts
            # scalars to size-1 arrays before calling it)
            x = np.atleast_1d(np.asarray(x, dtype=float))
            y = np.atleast_1d(np.asarray(y, dtype=float))
            x, y = np.broadcast_arrays(x, y)
            val = call(m.evaluate, x, y, direct['flux'], direct['x_0'],
                       direct['y_0'])
            st.stats.probe('evaluate_with_trial_parameters')
        else:
            x, y = self._coords(st, a, op)
            lay = op.get('layout', 'c')
            if np.ndim(x) == 2 and np.shape(x) == np.shape(y) and \
                    lay != 'c':
                # the same coordinates in another memory layout
                if lay == 'f':
                    x, y = np.asfortranarray(x), np.asfortranarray(y)
                elif lay == 'transposed':
                    x = np.ascontiguousarray(x.T).T
                    y = np.asfortranarray(y)
                else:
                    bx = np.zeros((x.shape[0] * 2, x.shape[1] * 3))
                    by = np.zeros_like(bx)
                    bx[::2, ::3], by[::2, ::3] = x, y
                    x, y = bx[::2, ::3], by[::2, ::3]
                st.stats.probe('coordinates_not_c_contiguous')
            val = call(m, x, y)
        st.trace.add('eval', digest(val))
        if isinstance(val, Raised):
            raise Violation('raises', 'evaluate',
                            f'params {a.p} grid {op["grid"]}: {val!r}')
        exp, cell, xi, yi = self._reference(st, a, x, y)
        tol = 1e-11 * st.scale * max(1.0, abs(a.p['flux']))
        d = diff(np.asarray(val, dtype=float), exp, RTOL, tol,
                 check_dtype=False)
        if d:
            raise Violation('reference', 'evaluate',
                            f'params {a.p} attrs {a.a} grid {op["grid"]} '
                            f'cell {cell}: model differs from the '
                            f'spline/bilinear reference: {d}')
        # definitional clause at knots: data * flux (no spline involved)
        if op['grid'] == 'knot':
            self._check_knots(st, a, val, cell)
        # fresh-model equivalence (exact): same code, same numbers
        fresh = self._build(st, a.p, a.a)
        fv = call(fresh, x, y)
        if direct:
            a = stored
        d = diff(val, fv)
        if d:
            raise Violation('history', 'evaluate',
                            f'params {a.p} grid {op["grid"]} cell {cell}: '
                            f'differs from a freshly built model: {d}')
        seen = st.visited.setdefault(a.share, set())
        via = getattr(a, 'kind', 'orig')
        hit = cell in seen
        st.stats.sig(f'{self.variant}|{cell}|{via}|{int(hit)}|{op["grid"]}')
        if hit and via == 'copy':
            st.stats.probe('cache_hit_from_other_copy')
        if self.variant == 'gridded' and (cell[2] or cell[3]):
            st.stats.probe('outside_grid')
        seen.add(cell)
        st.neval += 1
        st.held.add('evaluate', val)

    def _check_knots(self, st, a, val, cell):
        flux = a.p['flux']
        fvl = a.a['fill_value']
        if self.variant == 'image':
            if a.a.get('origin') is not None:
                return  # knots are not on integer indices with custom origin
            exp = flux * st.images[0]
        else:
            x0, y0 = a.p['x_0'], a.p['y_0']
            xg, yg = st.xg, st.yg

            def wts(g, v):
                if len(g) == 1:
                    return [(0, 1.0)]
                i = int(np.searchsorted(g, v, side='left')) - 1
                i = min(max(i, 0), len(g) - 2)
                vc = min(max(v, g[i]), g[i + 1])
                t = (vc - g[i]) / (g[i + 1] - g[i])
                return [(i, 1 - t), (i + 1, t)]
            exp = 0.0
            for ix, wx in wts(xg, x0):
                for iy, wy in wts(yg, y0):
                    if wx * wy == 0:
                        continue
                    k = int(np.where((st.pos[:, 0] == xg[ix])
                                     & (st.pos[:, 1] == yg[iy]))[0][0])
                    exp = exp + wx * wy * st.images[k]
            exp = flux * exp
            if any(abs(x0 - p[0]) < 1e-12 and abs(y0 - p[1]) < 1e-12
                   for p in st.pos):
                st.stats.probe('evaluated_exactly_at_grid_position')
        got = np.asarray(val, dtype=float)
        if got.shape != exp.shape:
            return
        # knots on the border may be flagged outside by an ulp: interior
        inner = (slice(1, -1), slice(1, -1))
        d = diff(got[inner], np.asarray(exp, dtype=float)[inner], 1e-8,
                 1e-10 * st.scale * max(1.0, abs(flux)), check_dtype=False)
        if d:
            raise Violation('knots', 'evaluate',
                            f'params {a.p} cell {cell}: model at its sample '
                            f'points is not data*flux (blend of the stored '
                            f'ePSFs): {d}')
        st.stats.probe('knot_values_checked')

    def nontrivial(self, plan, st):
        return st.neval >= 2

    def simpler_ops(self, op):
        if op.get('op') == 'eval' and op.get('grid') != 'scalar':
            yield {**op, 'grid': 'scalar', 'jit': [0.0, 0.0]}
        if op.get('op') == 'eval' and op.get('n', 2) > 2:
            yield {**op, 'n': 2}
