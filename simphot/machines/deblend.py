"""C06 - deblending only refines segments and is independent of worker
scheduling.  The whole process pool is simulated (simphot.simpool)."""

from __future__ import annotations

import numpy as np

from simphot import scenes
from simphot.compare import buffer_digest, diff, digest
from simphot.kernel import (Inapplicable, Machine, Raised, Violation, call,
                            dec, enc)
from simphot.simpool import SimDeadlock, SimUnsupported, installed


class _St:
    pass


def _labels_of(a):
    lab = np.unique(a)
    return lab[lab != 0]


class DeblendMachine(Machine):
    pid = 'C06'
    name = 'deblend'
    max_ops = 13
    real_components = ['deblend_sources', '_deblend_source',
                       '_SingleSourceDeblender', '_detect_sources',
                       'detect_sources', 'SegmentationImage',
                       'skimage.segmentation.watershed', 'SourceFinder',
                       'pickle transport of task arguments and results']
    stub_components = ['ProcessPoolExecutor (SimExecutor)', 'Future',
                       'as_completed', 'multiprocessing.get_context',
                       'cpu_count', 'tqdm (disabled)']
    rule = ('one run = one blended scene + configuration, one serial call '
            '(refinement oracle) and 4-12 simulated pool schedules '
            '(schedule-independence oracle); distinct = distinct '
            '(number of tasks, completion permutation, crash position) '
            'tuples reached among schedules with >= 2 tasks')

    def __init__(self, fault_tier=False):
        self.fault_tier = fault_tier

    # ------------------------------------------------------------------
    def make_cfg(self, rng, avoid):
        cfg = {
            'npixels': rng.pick([1, 2, 3, 5, 8, 12]),
            'nlevels': rng.pick([1, 2, 4, 8, 16, 32]),
            'contrast': rng.pick([0.0, 1e-3, 1e-3, 0.05, 0.5, 1.0]),
            'mode': rng.pick(['exponential', 'linear', 'sinh']),
            'connectivity': rng.pick([4, 8]),
            'relabel': rng.chance(0.5),
            'entry': 'finder' if rng.chance(0.15) else 'deblend',
            'label_subset': rng.chance(0.3),
            'label_gaps': rng.chance(0.4),
            'labels_repr': rng.pick(['plain', 'plain', 'array', 'tuple',
                                     'npint']),
            'nsched': rng.randint(4, 12),
            # a label made of two detached regions (the documented result of
            # merging labels with reassign_label, or a hand-built image)
            'merge_labels': rng.chance(0.12),
            # image data in non-native byte order (what a FITS reader hands
            # over); a labels= selection that names a label twice
            'big_endian': rng.chance(0.12),
            'dup_labels': rng.chance(0.2),
            # the result is deblended once more (two-call history)
            'second_pass': rng.chance(0.3),
            'fault_tier': self.fault_tier,
            'det_connectivity': None,
        }
        if cfg['entry'] == 'finder' and rng.chance(0.5):
            # SourceFinder(npixels=(detection, deblending)): 'npixels' stays
            # the deblending value, 'npixels_det' is the detection one
            cfg['npixels_det'] = rng.pick([1, 2, 3, 5, 8, 12, 20])
        if rng.chance(0.04):
            cfg.update({'carpet': True, 'npixels': 1, 'nlevels': 32,
                        'mode': rng.pick(['exponential', 'sinh']),
                        'contrast': rng.pick([0.0, 1e-3, 0.05]),
                        'entry': 'deblend', 'label_subset': False,
                        'nsched': 2})
        elif rng.chance(0.012):
            # a regular grid of equal peaks on one pedestal: one parent with
            # more than 255 children (no limit applies in linear mode, and
            # the other modes fall back to it)
            cfg.update({'carpet': 'grid', 'npixels': 1, 'nlevels': 32,
                        'mode': rng.pick(['linear', 'linear', 'sinh']),
                        'contrast': rng.pick([0.0, 1e-3]),
                        'entry': 'deblend', 'label_subset': False,
                        'label_gaps': rng.chance(0.3), 'nsched': 2})
        if self.fault_tier and rng.chance(0.35):
            # task_error: detect with 8-connectivity, deblend with 4
            cfg['det_connectivity'] = 8
            cfg['connectivity'] = 4
            cfg['entry'] = 'deblend'
        return cfg

    def make_scene(self, rng, cfg):
        from photutils.segmentation import detect_sources
        sc = scenes.blend_scene(rng)
        data = sc['data']
        thr = rng.pick([1.0, 2.0, 4.0]) * max(sc['noise'], 0.5) + sc['offset']
        if cfg.get('carpet') == 'grid':
            n = rng.pick([72, 76])
            g = rng.np()
            data = np.zeros((n + 14, n))
            data[:n] = 20.0
            pk = [(float(x), float(y), 200.0 * (1 + 0.02 * g.random()),
                   0.8, 0.8, 0.0)
                  for y in range(4, n - 3, 4) for x in range(4, n - 3, 4)]
            data[:n] += scenes.gaussians((n, n), pk)
            # a second, ordinary blend below a gutter of empty rows
            data[n + 2:] += scenes.gaussians((12, n), [
                (n / 2 - 3.0, 6.0, 80.0, 1.6, 1.6, 0.0),
                (n / 2 + 3.5, 6.0, 60.0, 1.6, 1.6, 0.0)])
            thr = 5.0
            sc = {'data': data, 'noise': 1.0, 'offset': 0.0}
        elif cfg.get('carpet'):
            # one bright core on a carpet of faint bumps covering the whole
            # frame: hundreds of markers at the low exponential thresholds
            # (the 'nmarkers' fallback to linear spacing), none or few at
            # the linear ones
            n = rng.randint(66, 76)
            g = rng.np()
            data = 10.0 + g.normal(0, 1.0, (n, n))
            ncore = rng.randint(1, 2)
            data += scenes.gaussians((n, n), [
                (rng.uniform(8, n - 8), rng.uniform(8, n - 8),
                 rng.uniform(300, 3000), 1.5, 1.5, 0.0)
                for _ in range(ncore)])
            thr = 5.0
            sc = {'data': data, 'noise': 1.0, 'offset': 10.0}
        if cfg.get('big_endian'):
            data = data.astype('>f8')
        out = {'data': enc(data), 'threshold': thr}
        if cfg['entry'] == 'finder':
            return out
        conn = cfg['det_connectivity'] or cfg['connectivity']
        segm = detect_sources(data, thr, cfg['npixels'], connectivity=conn)
        if segm is None:
            arr = np.zeros(data.shape, dtype=np.int32)
            arr[data.shape[0] // 2, data.shape[1] // 2] = 1
        else:
            arr = segm.data.copy()
        labs = _labels_of(arr)
        if cfg.get('merge_labels') and len(labs) >= 2:
            i, j = rng.sample(range(len(labs)), 2)
            arr[arr == labs[j]] = labs[i]
            labs = _labels_of(arr)
        if cfg['label_gaps'] and len(labs):
            # spread the labels: monotone map with gaps
            new = np.cumsum([rng.randint(1, 9) for _ in labs])
            m = np.zeros(arr.max() + 1, dtype=arr.dtype)
            m[labs] = new
            arr = m[arr]
            labs = _labels_of(arr)
        if rng.chance(0.3):
            arr = arr.astype(rng.pick(['int16', 'int64', 'uint16', 'uint32']))
        out['segm'] = enc(arr)
        if cfg['label_subset'] and len(labs):
            k = rng.randint(1, len(labs))
            sub = rng.sample([int(x) for x in labs], k)
            out['labels'] = sub if rng.chance(0.8) else sub[0]
            if cfg.get('dup_labels') and isinstance(out['labels'], list):
                # e.g. the concatenation of two selections
                out['labels'] = out['labels'] + [rng.pick(out['labels'])]
            if rng.chance(0.05):
                out['labels'] = []
        else:
            out['labels'] = None
        return out

    # ------------------------------------------------------------------
    def start(self, plan, stats, trace):
        from photutils.segmentation import SegmentationImage
        st = _St()
        st.stats, st.trace = stats, trace
        st.cfg = plan['cfg']
        sc = plan['scene']
        st.data = dec(sc['data'])
        st.threshold = sc['threshold']
        st.entry = st.cfg['entry']
        if st.entry == 'deblend':
            arr = dec(sc['segm'])
            try:
                st.segm = SegmentationImage(arr.copy())
            except Exception as e:  # shrunk scene no longer valid
                raise Inapplicable(str(e)) from e
            labs = _labels_of(arr)
            labels = sc.get('labels')
            if labels is not None:
                if isinstance(labels, list):
                    empty = not labels
                    labels = [x for x in labels if x in labs]
                    if not labels and not empty:
                        labels = None
                elif labels not in labs:
                    labels = None
            st.labels = labels
            st.in_arr = arr.copy()
            st.segm_digest0 = self._segm_digest(st.segm)
        st.data_digest0 = buffer_digest(st.data)
        st.serial = None
        st.serial_done = False
        st.ntasks = None
        st.nsched = 0
        return st

    @staticmethod
    def _segm_digest(segm):
        return (buffer_digest(segm.data),
                digest({int(k): np.asarray(v)
                        for k, v in segm._deblend_label_map.items()}))

    def next_op(self, rng, st):
        if not st.serial_done:
            return {'op': 'serial'}
        if st.nsched >= st.cfg['nsched']:
            return None
        if rng.chance(0.2) and st.entry == 'finder':
            # the caller re-uses its SourceFinder with another setting
            # (attribute assignment on the same object)
            knob = rng.pick(['contrast', 'mode', 'nlevels', 'relabel'])
            val = {'contrast': rng.pick([0.0, 1e-3, 0.05, 0.5, 1.0]),
                   'mode': rng.pick(['exponential', 'linear', 'sinh']),
                   'nlevels': rng.pick([1, 4, 16, 32]),
                   'relabel': rng.chance(0.5)}[knob]
            return {'op': 'reconfig', 'knob': knob, 'value': val}
        if rng.chance(0.12) and st.entry == 'deblend' and not st.cfg.get(
                'carpet'):
            # the same process goes on with another configuration: anything
            # the parallel path keeps between calls (a cached pool, worker
            # globals) must not leak into it
            knob = rng.pick(['connectivity', 'contrast', 'mode', 'nlevels',
                             'relabel', 'npixels'])
            val = {'connectivity': rng.pick([4, 8]),
                   'contrast': rng.pick([0.0, 1e-3, 0.05, 0.5]),
                   'mode': rng.pick(['exponential', 'linear', 'sinh']),
                   'nlevels': rng.pick([1, 4, 16, 32]),
                   'relabel': rng.chance(0.5),
                   'npixels': rng.pick([1, 2, 3, 5, 8])}[knob]
            return {'op': 'reconfig', 'knob': knob, 'value': val}
        return self._gen_schedule(rng, st)

    def _gen_schedule(self, rng, st):
        n = max(st.ntasks or 1, 1)
        nproc = rng.pick([2, 2, 3, 4, 8, None])
        cpu = rng.pick([1, 2, 3, 4, 16])
        W = nproc if nproc is not None else cpu
        sched = {'cpu_count': cpu,
                 'head_perm': [rng.randrange(1000) for _ in range(n)]}
        if rng.chance(0.5):
            sched['mode'] = 'des'
            kind = rng.pick(['zero', 'uniform', 'one_slow'])
            if kind == 'zero':
                sched['startup'] = [0.0] * W
            elif kind == 'uniform':
                sched['startup'] = [round(rng.uniform(0, 3), 3)
                                    for _ in range(W)]
            else:
                sched['startup'] = [0.0] * W
                sched['startup'][rng.randrange(W)] = 30.0
            sk = rng.pick(['const', 'expo', 'reverse', 'stalled', 'uniform'])
            if sk == 'const':
                service = [1.0] * n
            elif sk == 'expo':
                service = [round(rng.expovariate(1.0) + 1e-3, 4)
                           for _ in range(n)]
            elif sk == 'reverse':
                service = [float(n - i) * 2.0 for i in range(n)]
            elif sk == 'uniform':
                service = [round(rng.uniform(0.01, 2.0), 4) for _ in range(n)]
            else:
                service = [1.0] * n
                service[rng.randrange(n)] = 100.0
            sched['service'] = service
            sched['service_kind'] = sk
            sched['submit_cost'] = rng.pick([0.0, 0.0, 0.05, 0.7, 5.0])
        else:
            sched['mode'] = 'adversary'
            ak = rng.pick(['random', 'reverse', 'rotate', 'random'])
            order = list(range(n))
            if ak == 'random':
                rng.shuffle(order)
            elif ak == 'reverse':
                order.reverse()
            else:
                k = rng.randrange(n)
                order = order[k:] + order[:k]
            sched['order'] = order
        if st.cfg['fault_tier'] and rng.chance(0.5):
            sched['crash_at'] = rng.randrange(n + 1)
            sched['crash_frac'] = round(rng.uniform(0.05, 0.95), 3)
        return {'op': 'schedule', 'nproc': nproc, 'sched': sched}

    # ------------------------------------------------------------------
    def _invoke(self, st, nproc):
        from photutils.segmentation import SourceFinder, deblend_sources
        c = st.cfg
        if st.entry == 'finder':
            npx = c['npixels'] if c.get('npixels_det') is None else (
                c['npixels_det'], c['npixels'])
            if getattr(st, 'finder', None) is None:
                # one finder object for the whole run
                st.finder = SourceFinder(
                    npx, connectivity=c['connectivity'], deblend=True,
                    nlevels=c['nlevels'], contrast=c['contrast'],
                    mode=c['mode'], relabel=c['relabel'], nproc=1,
                    progress_bar=False)
            st.finder.nproc = nproc
            return call(st.finder, st.data, st.threshold)
        labels = st.labels
        rep = c.get('labels_repr', 'plain')
        if isinstance(labels, list) and labels:
            if rep == 'array':
                labels = np.array(labels)
            elif rep == 'tuple':
                labels = tuple(labels)
            elif rep == 'npint':
                labels = [np.int32(x) for x in labels]
        elif isinstance(labels, int) and rep != 'plain':
            labels = np.int64(labels)
        return call(deblend_sources, st.data, st.segm, c['npixels'],
                    labels=labels, nlevels=c['nlevels'],
                    contrast=c['contrast'], mode=c['mode'],
                    connectivity=c['connectivity'], relabel=c['relabel'],
                    nproc=nproc, progress_bar=False)

    @staticmethod
    def _observe(out):
        """Everything a caller can read from the returned image."""
        if out is None or isinstance(out, Raised):
            return out
        info = getattr(out, 'info', None)
        winfo = None
        if info is not None:
            winfo = {k: {'message': v['message'],
                         'input_labels': np.asarray(v['input_labels'])}
                     for k, v in info.get('warnings', {}).items()}
        return {
            'data': out.data.copy(),
            'labels': np.array(out.labels),
            'deblended_labels': np.array(out.deblended_labels),
            'inverse_map': {int(k): np.asarray(v) for k, v in
                            out.deblended_labels_inverse_map.items()},
            'map': {int(k): int(v) for k, v in
                    out.deblended_labels_map.items()},
            'warnings': winfo,
        }

    def _check_inputs(self, st, where):
        if buffer_digest(st.data) != st.data_digest0:
            raise Violation('input_modified', 'data', where)
        if st.entry == 'deblend':
            if self._segm_digest(st.segm) != st.segm_digest0:
                raise Violation('input_modified', 'segment_img', where)
            # ... and it still reports what its (unchanged) array says
            arr = st.in_arr
            labs = _labels_of(arr)
            got = call(lambda: (np.asarray(st.segm.labels),
                                np.asarray(st.segm.areas)))
            exp = (np.asarray(labs), np.array(
                [np.count_nonzero(arr == l) for l in labs], dtype=int))
            if isinstance(got, Raised) or \
                    not np.array_equal(got[0], exp[0]) or \
                    not np.array_equal(got[1], exp[1]):
                raise Violation('input_modified', 'segment_img_attributes',
                                f'{where}: labels/areas of the input image '
                                f'are {got!r}, its array says {exp!r}')

    def step(self, st, op):
        if op['op'] == 'serial':
            self._step_serial(st)
        elif op['op'] == 'reconfig':
            st.cfg = dict(st.cfg)
            st.cfg[op['knob']] = op['value']
            if st.entry == 'finder':
                if op['knob'] not in ('contrast', 'mode', 'nlevels',
                                      'relabel') or getattr(
                                          st, 'finder', None) is None:
                    raise Inapplicable('reconfig')
                setattr(st.finder, op['knob'], op['value'])
                st.stats.probe('finder_attribute_reassigned')
            # a connectivity that differs from the one of the segmentation
            # may legitimately make the call raise: serial decides
            st.cfg['fault_tier'] = st.cfg['fault_tier'] or (
                op['knob'] == 'connectivity')
            st.stats.probe('reconfigured_between_calls')
            self._step_serial(st)
        elif op['op'] == 'schedule':
            if not st.serial_done:
                self._step_serial(st)
            self._step_schedule(st, op)
        else:
            raise Inapplicable(op['op'])

    # --- serial call + refinement oracle --------------------------------
    def _step_serial(self, st):
        out = self._invoke(st, 1)
        st.serial_done = True
        st.serial_raw = out
        st.serial = self._observe(out)
        st.trace.add('serial', digest(st.serial))
        if isinstance(st.serial, dict) and st.serial.get('warnings') and \
                'nmarkers' in st.serial['warnings']:
            st.stats.probe('nmarkers_fallback_taken')
        self._check_inputs(st, 'after serial call')
        c = st.cfg
        if st.entry == 'deblend':
            areas = {int(l): int(np.count_nonzero(st.in_arr == l))
                     for l in _labels_of(st.in_arr)}
            cand = (list(areas) if st.labels is None
                    else list(np.atleast_1d(st.labels)))
            st.ntasks = sum(1 for l in cand if areas[int(l)]
                            >= 2 * c['npixels'])
            if c['contrast'] == 1:
                st.ntasks = 0
        else:
            st.ntasks = None
        # a label made of detached regions that is itself a deblending
        # candidate may make the library give up ("Deblending failed for
        # source ...": its watershed cannot reproduce the segment); nothing
        # in the statement forbids that.  As long as the label is *not* a
        # candidate the call has to go through like any other.
        detached_cand = False
        if st.entry == 'deblend' and c.get('merge_labels') and \
                c['contrast'] != 1:
            from scipy import ndimage
            struct = ndimage.generate_binary_structure(
                2, 2 if c['connectivity'] == 8 else 1)
            for l in cand:
                if areas[int(l)] >= 2 * c['npixels'] and ndimage.label(
                        st.in_arr == l, structure=struct)[1] > 1:
                    detached_cand = True
            st.stats.probe('detached_label_' + (
                'candidate' if detached_cand else 'not_candidate'))
        if isinstance(out, Raised):
            st.stats.fault('task_error')
            st.stats.probe('serial_raises_' + out.type)
            if not c['fault_tier'] and not (
                    detached_cand and out.type == 'ValueError'
                    and 'Deblending failed' in str(out.exc)):
                # without a provoked fault the serial call must not raise
                # for valid configurations, except for data-dependent
                # errors the documentation names (connectivity mismatch is
                # only generated in the fault tier)
                raise Violation('serial_raises', out.type, repr(out))
            return
        if out is None:
            st.stats.probe('finder_none')
            return
        if st.entry == 'finder':
            from photutils.segmentation import detect_sources
            base = detect_sources(st.data, st.threshold,
                                  c.get('npixels_det') or c['npixels'],
                                  connectivity=c['connectivity'])
            in_arr = base.data
            st.in_arr = in_arr
            areas = {int(l): int(np.count_nonzero(in_arr == l))
                     for l in _labels_of(in_arr)}
            st.ntasks = (0 if c['contrast'] == 1 else
                         sum(1 for a in areas.values()
                             if a >= 2 * c['npixels']))
            labels_sel = None
        else:
            in_arr = st.in_arr
            labels_sel = st.labels
        self._refinement(st, in_arr, labels_sel, st.serial, out)
        if st.entry == 'deblend' and c.get('second_pass') and \
                st.serial['inverse_map'] and c['contrast'] != 1:
            # two-call history: the result (which carries a deblend record)
            # is the input of a second call; every clause applies to that
            # call as to the first, and its input stays what it was
            from photutils.segmentation import deblend_sources
            d0 = self._segm_digest(out)
            out2 = call(deblend_sources, st.data, out, c['npixels'],
                        nlevels=c['nlevels'], contrast=c['contrast'],
                        mode=c['mode'], connectivity=c['connectivity'],
                        relabel=c['relabel'], nproc=1, progress_bar=False)
            if self._segm_digest(out) != d0:
                raise Violation('input_modified', 'segment_img',
                                'second pass changed the first result')
            if isinstance(out2, Raised):
                st.stats.probe('second_pass_raised_' + out2.type)
            else:
                self._refinement(st, st.serial['data'], None,
                                 self._observe(out2), out2)
                st.stats.probe('second_pass_checked')
        if st.entry == 'deblend':
            # the caller goes on working with the result (a label
            # operation and an in-place clean-up): the input stays what it
            # was.  The observation above holds copies.
            call(lambda: out.data.__setitem__(Ellipsis, 0))
            self._check_inputs(st, 'after the caller cleared the result '
                               'array in place')
            labs = np.array(st.serial['labels'])
            if len(labs):
                call(lambda: setattr(out, 'data', st.serial['data'].copy()))
                call(out.remove_label, int(labs[0]))
                self._check_inputs(st, 'after a label operation on the '
                                   'result')
            st.stats.probe('result_edited_input_checked')

    def _refinement(self, st, in_arr, labels_sel, obs, out):
        c = st.cfg
        o = obs['data']
        if o.shape != in_arr.shape:
            raise Violation('refine', 'shape', f'{o.shape} vs {in_arr.shape}')
        if not np.array_equal(o != 0, in_arr != 0):
            raise Violation('refine', 'nonzero_set',
                            'set of non-zero pixels changed')
        inv = obs['inverse_map']
        in_labels = [int(x) for x in _labels_of(in_arr)]
        allowed = (in_labels if labels_sel is None
                   else [int(x) for x in np.atleast_1d(labels_sel)])
        out_labels = [int(x) for x in _labels_of(o)]
        if [int(x) for x in obs['labels']] != out_labels:
            raise Violation('refine', 'labels',
                            f'{obs["labels"]} vs array {out_labels}')
        if c['contrast'] == 1:
            if not np.array_equal(o, in_arr) or inv:
                raise Violation('refine', 'contrast1',
                                'contrast=1 changed the image')
        children_all = []
        for parent, kids in inv.items():
            kids = [int(k) for k in kids]
            if parent not in in_labels:
                raise Violation('refine', 'map_parent',
                                f'parent {parent} not an input label')
            if parent not in allowed:
                raise Violation('refine', 'map_parent',
                                f'parent {parent} not among requested labels')
            if len(kids) < 2 or len(set(kids)) != len(kids):
                raise Violation('refine', 'children_count',
                                f'parent {parent} -> {kids}')
            pmask = in_arr == parent
            kmask = np.isin(o, kids)
            if not np.array_equal(pmask, kmask):
                raise Violation('refine', 'partition',
                                f'children of {parent} do not partition it')
            for k in kids:
                a = int(np.count_nonzero(o == k))
                if a < c['npixels']:
                    raise Violation('refine', 'child_npixels',
                                    f'child {k} of {parent} has {a} px')
            children_all += kids
            st.stats.probe('parents_deblended')
        if len(set(children_all)) != len(children_all):
            raise Violation('refine', 'children_shared', str(inv))
        for lab in in_labels:
            if lab in inv:
                continue
            vals = np.unique(o[in_arr == lab])
            if len(vals) != 1:
                raise Violation('refine', 'untouched_segment',
                                f'label {lab} split without map entry')
            if np.count_nonzero(o == vals[0]) != np.count_nonzero(
                    in_arr == lab):
                raise Violation('refine', 'untouched_segment',
                                f'label {lab} merged with other pixels')
            if not c['relabel'] and int(vals[0]) != lab:
                raise Violation('refine', 'untouched_label',
                                f'label {lab} became {vals[0]}')
        # contrast=1 "returns the input unchanged" (the more specific clause
        # of the statement), so the 1..N clause is applied for contrast < 1
        if (c['relabel'] and c['contrast'] != 1
                and out_labels != list(range(1, len(out_labels) + 1))):
            raise Violation('refine', 'relabel_consecutive', str(out_labels))
        if sorted(children_all) != [int(x) for x in obs['deblended_labels']]:
            raise Violation('refine', 'deblended_labels',
                            f'{obs["deblended_labels"]} vs {children_all}')
        fwd = obs['map']
        exp = {k: p for p, ks in inv.items() for k in ks}
        if {int(k): int(v) for k, v in fwd.items()} != {
                int(k): int(v) for k, v in exp.items()}:
            raise Violation('refine', 'map', f'{fwd} vs {exp}')
        if out.data.dtype != in_arr.dtype:
            st.stats.probe('dtype_changed')
        if inv:
            st.stats.probe('scene_with_deblending')

    # --- one simulated schedule ----------------------------------------
    def _step_schedule(self, st, op):
        st.nsched += 1
        sched = op['sched']
        nproc = op['nproc']
        with installed(sched) as fac:
            out = self._invoke(st, nproc)
        if isinstance(out, Raised) and isinstance(
                out.exc, (SimUnsupported,)):
            raise out.exc   # -> HARNESS
        log = fac.log
        obs = self._observe(out)
        st.trace.add('sched', digest(obs), log.get('completion_order'))
        st.stats.sim_time += float(log.get('makespan', 0.0))
        self._check_inputs(st, f'after schedule nproc={nproc}')
        effective = (nproc if nproc is not None else sched.get('cpu_count'))
        pool_used = bool(fac.api_calls.get('ProcessPoolExecutor'))
        if nproc is None:
            st.stats.probe('nproc_none')
        order = log.get('completion_order', [])
        crash = bool(log.get('crash_fired'))
        ntasks = log.get('n_submitted', 0)
        if pool_used and ntasks >= 2:
            st.stats.sig(f'{ntasks}:{order}:{"X" if crash else ""}')
            inv = sum(1 for i in range(len(order))
                      for j in range(i + 1, len(order)) if order[i] > order[j])
            st.stats.extra.setdefault('kendall', {})
            b = ('0' if inv == 0 else '1-2' if inv <= 2 else
                 '3-9' if inv <= 9 else '10+')
            st.stats.extra['kendall'][b] = st.stats.extra['kendall'].get(
                b, 0) + 1
            if len(order) >= 2 and order == sorted(order, reverse=True):
                st.stats.probe('strictly_reversed_completion')
        if pool_used:
            st.stats.fault('transport', 2 * len(order))
            if sched.get('mode') == 'des':
                sk = sched.get('service_kind', '')
                st.stats.fault('delay')
                if sk == 'stalled':
                    st.stats.fault('stall')
                if order != sorted(order):
                    st.stats.fault('reorder')
            else:
                if order != sorted(order):
                    st.stats.fault('reorder')
            if log.get('head_finished', 0) > 1:
                st.stats.probe('as_completed_head_set_order')
            if ntasks >= 3:
                st.stats.probe('schedules_with_ge3_tasks')
        if crash:
            st.stats.fault('worker_crash')
        if isinstance(out, Raised) and isinstance(out.exc, SimDeadlock):
            raise Violation('liveness', 'deadlock', repr(out))
        ser = st.serial
        if crash:
            # narrow relaxation: the call raises BrokenProcessPool, or (all
            # results were already collected) returns the identical result
            if isinstance(out, Raised):
                if isinstance(ser, Raised) and out.type == ser.type:
                    return
                if out.type != 'BrokenProcessPool':
                    raise Violation('fault', 'crash_exception',
                                    f'{out!r} after worker crash')
                st.stats.probe('crash_surfaced_as_BrokenProcessPool')
                return
            st.stats.probe('crash_but_returned')
            # a partial image must never be returned
            d = diff(obs, ser)
            if d:
                raise Violation('fault', 'partial_result_after_crash', d)
            if len(order) < ntasks:
                raise Violation('fault', 'result_without_all_tasks',
                                f'{len(order)} of {ntasks} tasks completed')
            return
        d = diff(obs, ser)
        if d:
            raise Violation('schedule_independence',
                            d.split(':')[0].strip('.[]\'') or 'result',
                            f'nproc={nproc} order={order}: {d}')
        # bounded liveness: returned after exactly ntasks completion events
        if pool_used and not isinstance(out, Raised):
            if len(order) != ntasks:
                raise Violation('liveness', 'completion_events',
                                f'{len(order)} events for {ntasks} tasks')
            if st.ntasks is not None and effective != 1 and (
                    ntasks != st.ntasks):
                raise Violation('liveness', 'tasks_submitted',
                                f'{ntasks} submitted, {st.ntasks} expected')
        if effective == 1:
            st.stats.probe('effective_nproc_1')

    def signature(self, st):
        return ''

    def nontrivial(self, plan, st):
        return bool(st.ntasks and st.ntasks >= 2)

    # ------------------------------------------------------------------
    def simpler_ops(self, op):
        if op.get('op') != 'schedule':
            return
        s = op['sched']
        if s.get('mode') == 'des':
            s2 = dict(s)
            s2['mode'] = 'adversary'
            s2['order'] = []
            yield {**op, 'sched': s2}
        if s.get('mode') == 'adversary' and s.get('order'):
            n = len(s['order'])
            yield {**op, 'sched': {**s, 'order': list(range(n))[::-1]}}
            yield {**op, 'sched': {**s, 'order': list(range(n))}}
        if op.get('nproc') != 2:
            yield {**op, 'nproc': 2}
        if s.get('head_perm'):
            yield {**op, 'sched': {**s, 'head_perm': []}}

    def simpler_scenes(self, plan):
        sc = plan['scene']
        if 'segm' not in sc:
            return
        arr = dec(sc['segm'])
        data = dec(sc['data'])
        labs = _labels_of(arr)
        # drop one label at a time
        for lab in labs[::-1]:
            a2 = arr.copy()
            a2[a2 == lab] = 0
            if not a2.any():
                continue
            p = dict(plan)
            p['scene'] = {**sc, 'segm': enc(a2)}
            yield p
        # crop to the bounding box of the labels
        ys, xs = np.nonzero(arr)
        if len(ys):
            y0, y1, x0, x1 = ys.min(), ys.max() + 1, xs.min(), xs.max() + 1
            if (y1 - y0, x1 - x0) != arr.shape:
                p = dict(plan)
                p['scene'] = {**sc, 'segm': enc(arr[y0:y1, x0:x1].copy()),
                              'data': enc(data[y0:y1, x0:x1].copy())}
                yield p
        if sc.get('labels') is not None:
            p = dict(plan)
            p['scene'] = {**sc, 'labels': None}
            yield p


def real_pool_fidelity(base_seed, nscenes=3):
    """Thorough tier only: run a few scenes through the *real* spawn pool
    (OS-chosen schedule) and compare with the serial path.  The property says
    the result is the same for every schedule, so the comparison is sound; it
    validates that the simulated executor is a faithful stand-in.

    Returns (n_compared, list of mismatch descriptions).
    """
    from photutils.segmentation import SegmentationImage, deblend_sources
    from simphot.kernel import Rng, derive
    m = DeblendMachine()
    done, bad = 0, []
    i = 0
    while done < nscenes and i < 200:
        seed = derive(base_seed, 'C06-fidelity', i)
        i += 1
        rng = Rng(seed)
        cfg = m.make_cfg(rng.sub('cfg'), set())
        if cfg['entry'] != 'deblend' or cfg['contrast'] == 1:
            continue
        sc = m.make_scene(rng.sub('scene'), cfg)
        arr = dec(sc['segm'])
        data = dec(sc['data'])
        if len(_labels_of(arr)) < 3:
            continue
        kw = dict(labels=sc.get('labels'), nlevels=cfg['nlevels'],
                  contrast=cfg['contrast'], mode=cfg['mode'],
                  connectivity=cfg['connectivity'], relabel=cfg['relabel'],
                  progress_bar=False)
        ser = DeblendMachine._observe(call(
            deblend_sources, data, SegmentationImage(arr.copy()),
            cfg['npixels'], nproc=1, **kw))
        for nproc in (2, 4):
            par = DeblendMachine._observe(call(
                deblend_sources, data, SegmentationImage(arr.copy()),
                cfg['npixels'], nproc=nproc, **kw))
            d = diff(par, ser)
            if d:
                bad.append(f'seed {seed} nproc={nproc}: {d[:300]}')
        done += 1
    return done, bad
