"""C08 - indexing a catalog commutes with evaluating its properties; sliced
catalogs are independent of their parents.

Actors: a family of catalogs (parent, children, grandchildren) sharing
storage.  Reference model: a never-indexed fresh catalog built from deep
copies of the inputs, row-selected; per-actor model of extra properties.
"""

from __future__ import annotations

import copy as _copy

import numpy as np

from simphot import scenes
from simphot.compare import diff, digest, plain
from simphot.kernel import (Inapplicable, Machine, Raised, Violation, call,
                            dec, enc)

RTOL, ATOL = 1e-10, 1e-12

# expensive SourceCatalog properties get a lower read weight
SLOW = {'centroid_win', 'xcentroid_win', 'ycentroid_win',
        'cutout_centroid_win', 'sky_centroid_win', 'kron_radius',
        'kron_aperture', 'kron_flux', 'kron_fluxerr'}


class _Actor:
    def __init__(self, cat, rows, scalar, extras, cached_at_birth=()):
        self.cat = cat
        self.rows = rows            # indices into the fresh catalog
        self.scalar = scalar
        self.extras = extras        # ordered {name: per-row expected values}
        self.cached_at_birth = set(cached_at_birth)


class _St:
    pass


def _wcs(shape):
    from astropy.wcs import WCS
    w = WCS(naxis=2)
    w.wcs.crpix = [shape[1] / 2, shape[0] / 2]
    w.wcs.cdelt = [-2e-4, 2e-4]
    w.wcs.crval = [150.1, 2.2]
    w.wcs.ctype = ['RA---TAN', 'DEC--TAN']
    w.pixel_shape = (shape[1], shape[0])
    return w


# documented as "always an iterable": never collapsed to a scalar
ALWAYS_ITERABLE = {'labels', 'ids'}
# per-catalog (not per-source) values
GLOBAL_PROPS = {'n_apertures', 'isscalar', 'nlabels'}


def select(value, rows, scalar):
    """Row-select a per-source value of the never-indexed catalog."""
    if isinstance(value, Raised):
        return value
    if scalar:
        r = rows[0]
        return value[r]
    if isinstance(value, (list, tuple)):
        return [value[r] for r in rows]
    return value[np.asarray(rows, dtype=int)]


COV_FAMILY = {'covariance', 'covariance_eigvals', 'semimajor_sigma',
              'semiminor_sigma', 'orientation', 'eccentricity', 'elongation',
              'ellipticity', 'covar_sigx2', 'covar_sigy2', 'covar_sigxy',
              'cxx', 'cxy', 'cyy', 'fwhm', 'equivalent_radius'}


def invalid_arg(method, arg):
    return ((method == 'circular_photometry' and arg <= 0)
            or (method == 'fluxfrac_radius' and not 0 < arg <= 1))


class CatalogMachine(Machine):
    pid = 'C08'
    max_ops = 25

    def __init__(self, variant='source'):
        self.variant = variant
        self.name = 'catalog-' + variant
        if variant == 'source':
            self.real_components = ['SourceCatalog (all public properties, '
                                    '__getitem__, get_label(s), extra '
                                    'property registry, photometry methods, '
                                    'to_table)', 'detect_sources',
                                    'SegmentationImage', 'astropy WCS']
        else:
            self.real_components = ['ApertureStats (all public properties, '
                                    '__getitem__, get_id(s), to_table)',
                                    'pixel and sky apertures', 'SigmaClip']
        self.stub_components = ['none (public API only)']
        self.rule = ('one run = one catalog + configuration and up to 25 '
                     'operations by any member of the catalog family '
                     '(property read, index by int/slice/list/bool/label, '
                     'extra-property and photometry operations, to_table, '
                     'copy, rejected calls); distinct = distinct (property, '
                     'cached in an ancestor before indexing?, index form, '
                     'scalar actor?) tuples observed')

    # ------------------------------------------------------------------
    def make_cfg(self, rng, avoid):
        if self.variant == 'source':
            return {
                'error': rng.chance(0.6), 'mask': rng.chance(0.5),
                'background': rng.chance(0.4), 'wcs': rng.chance(0.4),
                'unit': rng.chance(0.3),
                'localbkg_width': rng.pick([0, 0, 3, 5]),
                'detcat': rng.chance(0.25),
                'convolved': rng.chance(0.3),
                'apermask_method': rng.pick(['correct', 'mask', 'none']),
                'kron_params': rng.pick([[2.5, 1.4, 0.0], [2.5, 1.4],
                                         [2.0, 1.0, 3.0]]),
                'label_gaps': rng.chance(0.4),
                'mask_whole_source': rng.chance(0.25),
                'nan_pixels': rng.chance(0.3),
                # slightly over-subtracted background: negative wings, the
                # total Kron flux is never reached inside the largest circle
                'oversub': rng.chance(0.2),
                'slow_weight': rng.pick([0.2, 1.0]),
                'pre_read': rng.pick([0, 0.2, 0.6, 1.0]),
                'pristine_ref': rng.chance(0.6),
                'progress_bar': rng.chance(0.1),
            }
        return {
            'aperture': rng.pick(['circle', 'ellipse', 'rect', 'annulus',
                                  'sky_circle']),
            'error': rng.chance(0.6), 'mask': rng.chance(0.5),
            'unit': rng.chance(0.3),
            'sigma_clip': rng.chance(0.5),
            'sum_method': rng.pick(['exact', 'center', 'subpixel']),
            'local_bkg': rng.pick(['none', 'scalar', 'array']),
            'offimage': rng.chance(0.3),
            'nan_pixels': rng.chance(0.3),
            'pre_read': rng.pick([0, 0.2, 0.6, 1.0]),
            'slow_weight': 1.0,
            'pristine_ref': rng.chance(0.6),
        }

    def make_scene(self, rng, cfg):
        sc = scenes.star_field(rng, nstars=rng.randint(2, 6))
        data = sc['data']
        g = rng.np()
        out = {}
        clean = data.copy()      # sources are detected before pixels go bad
        if cfg.get('nan_pixels'):
            for _ in range(rng.randint(1, 3)):
                data[rng.randrange(data.shape[0]),
                     rng.randrange(data.shape[1])] = rng.pick(
                         [np.nan, np.inf])
            if rng.chance(0.7) and sc['srcs']:
                # a bad pixel next to the peak of a source (inside its
                # segment; the convolved image is finite there)
                s0 = rng.pick(sc['srcs'])
                yb = min(data.shape[0] - 1, max(0, int(round(s0[1]))
                                                + rng.pick([-1, 0, 1])))
                xb = min(data.shape[1] - 1, max(0, int(round(s0[0])) + 1))
                data[yb, xb] = np.nan
        out['data'] = enc(data)
        err = np.abs(g.normal(1.0, 0.1, data.shape)) + 0.1
        if cfg.get('nan_pixels') and rng.chance(0.5):
            err[rng.randrange(data.shape[0]),
                rng.randrange(data.shape[1])] = np.nan
        out['error'] = enc(err)
        out['background'] = enc(g.normal(5.0, 0.2, data.shape))
        mask = g.random(data.shape) < 0.03
        out['mask'] = enc(mask)
        if self.variant == 'source':
            from photutils.segmentation import detect_sources
            d0 = clean if rng.chance(0.7) else np.where(
                np.isfinite(data), data, 0.0)
            segm = detect_sources(d0, 3.0 * max(sc['noise'], 0.5) + 2.0,
                                  npixels=rng.pick([3, 5]))
            if segm is None or segm.nlabels < 1:
                arr = np.zeros(data.shape, dtype=np.int32)
                arr[5:9, 5:9] = 1
                arr[15:18, 12:17] = 2
            else:
                arr = segm.data.copy()
            # a tiny 2-pixel segment makes the quadratic centroid fit fail
            if rng.chance(0.5):
                free = np.argwhere(arr == 0)
                y, x = free[rng.randrange(len(free))]
                if x + 1 < arr.shape[1] and arr[y, x + 1] == 0:
                    lab = arr.max() + 1
                    arr[y, x] = lab
                    arr[y, x + 1] = lab
            labs = np.unique(arr[arr > 0])
            if cfg['label_gaps']:
                new = np.cumsum([rng.randint(1, 5) for _ in labs])
                m = np.zeros(arr.max() + 1, dtype=arr.dtype)
                m[labs] = new
                arr = m[arr]
                labs = np.unique(arr[arr > 0])
            if cfg['mask'] and cfg['mask_whole_source'] and len(labs) > 1:
                lab = rng.pick([int(x) for x in labs])
                mask = mask | (arr == lab)
                out['mask'] = enc(mask)
            out['segm'] = enc(arr)
            if cfg.get('oversub'):
                data = data - rng.uniform(0.3, 1.2)
                out['data'] = enc(data)
            from astropy.convolution import Gaussian2DKernel, convolve
            conv = convolve(np.where(np.isfinite(data), data, 0.0),
                            Gaussian2DKernel(1.0, x_size=3, y_size=3),
                            normalize_kernel=True)
            out['convolved'] = enc(conv)
        else:
            n = rng.randint(2, 6)
            ny, nx = data.shape
            pos = [[rng.uniform(2, nx - 3), rng.uniform(2, ny - 3)]
                   for _ in range(n)]
            # centre some apertures on the stars
            for i, s in enumerate(sc['srcs'][:n]):
                if rng.chance(0.6):
                    pos[i] = [s[0], s[1]]
            if cfg['offimage']:
                pos[rng.randrange(n)] = [-30.0, -30.0]
                if rng.chance(0.5):
                    pos[rng.randrange(n)] = [nx - 0.5, ny / 2]
            out['positions'] = pos
            out['r'] = rng.uniform(2.0, 5.0)
            out['theta'] = rng.uniform(0, 3.0)
            out['local_bkg_values'] = [rng.uniform(-1, 3) for _ in range(n)]
        return out

    # ------------------------------------------------------------------
    def _build(self, st, sc):
        cfg = st.cfg
        import astropy.units as u
        data = dec(sc['data']).copy()
        unit = u.Jy if cfg.get('unit') else None

        def q(a):
            return a * unit if unit is not None else a
        if self.variant == 'source':
            from photutils.segmentation import SegmentationImage, SourceCatalog
            segm = SegmentationImage(dec(sc['segm']).copy())
            kw = {}
            if cfg['error']:
                kw['error'] = q(dec(sc['error']).copy())
            if cfg['mask']:
                kw['mask'] = dec(sc['mask']).copy()
            if cfg['background']:
                kw['background'] = q(dec(sc['background']).copy())
            if cfg['wcs']:
                kw['wcs'] = _wcs(data.shape)
            if cfg['convolved']:
                kw['convolved_data'] = q(dec(sc['convolved']).copy())
            kw['localbkg_width'] = cfg['localbkg_width']
            kw['apermask_method'] = cfg['apermask_method']
            kw['kron_params'] = tuple(cfg['kron_params'])
            if cfg.get('progress_bar'):
                kw['progress_bar'] = True
            if cfg['detcat']:
                det = SourceCatalog(q(dec(sc['convolved']).copy()), segm,
                                    wcs=kw.get('wcs'),
                                    apermask_method=cfg['apermask_method'],
                                    kron_params=tuple(cfg['kron_params']))
                kw['detection_cat'] = det
            return SourceCatalog(q(data), segm, **kw)
        from astropy.stats import SigmaClip
        from photutils.aperture import (ApertureStats, CircularAnnulus,
                                        CircularAperture, EllipticalAperture,
                                        RectangularAperture,
                                        SkyCircularAperture)
        pos = np.array(sc['positions'])
        r = sc['r']
        kind = cfg['aperture']
        kw = {}
        if kind == 'circle':
            aper = CircularAperture(pos, r)
        elif kind == 'ellipse':
            aper = EllipticalAperture(pos, r, r * 0.6, theta=sc['theta'])
        elif kind == 'rect':
            aper = RectangularAperture(pos, 2 * r, r, theta=sc['theta'])
        elif kind == 'annulus':
            aper = CircularAnnulus(pos, r * 0.5, r)
        else:
            w = _wcs(data.shape)
            sky = w.pixel_to_world(pos[:, 0], pos[:, 1])
            aper = SkyCircularAperture(sky, r=r * 0.72 * u.arcsec)
            kw['wcs'] = w
        if cfg['error']:
            kw['error'] = q(dec(sc['error']).copy())
        if cfg['mask']:
            kw['mask'] = dec(sc['mask']).copy()
        if cfg['sigma_clip']:
            kw['sigma_clip'] = SigmaClip(sigma=3.0, maxiters=10)
        kw['sum_method'] = cfg['sum_method']
        kw['subpixels'] = 3
        if cfg['local_bkg'] == 'scalar':
            kw['local_bkg'] = q(sc['local_bkg_values'][0]) if unit is None \
                else sc['local_bkg_values'][0] * unit
        elif cfg['local_bkg'] == 'array':
            v = np.array(sc['local_bkg_values'])
            kw['local_bkg'] = v * unit if unit is not None else v
        return ApertureStats(q(data), aper, **kw)

    def start(self, plan, stats, trace):
        st = _St()
        st.stats, st.trace, st.cfg = stats, trace, plan['cfg']
        sc = plan['scene']
        cat = call(self._build, st, sc)
        if isinstance(cat, Raised):
            raise Inapplicable(f'constructor rejected the scene: {cat!r}')
        st.fresh = self._build(st, sc)
        st.fresh2 = None
        st.scene = sc
        st.n = (cat.nlabels if self.variant == 'source'
                else cat.n_apertures)
        st.props = list(cat.properties)
        if self.variant == 'aperstats':
            st.props += ['id', 'ids']
        st.fvals = {}
        st.null_bad = set()
        st.actors = [_Actor(cat, list(range(st.n)), False, {})]
        st.nidx = 0
        st.extra_counter = 0
        st.old_names = []
        st.pending = None
        if self.variant == 'source':
            st.keys = [int(x) for x in st.fresh.labels]
        else:
            st.keys = [int(x) for x in st.fresh.ids]
        st.scalar_props = None
        return st

    # --- reference values ---------------------------------------------
    def _fval(self, st, p):
        if p not in st.fvals and not st.cfg.get('pristine_ref', True):
            # (swarm: in some runs the long-lived catalog alone is the
            # reference - three times as many runs per hour)
            st.fvals[p] = call(getattr, st.fresh, p)
        if p not in st.fvals:
            # the reference value of p comes from a pristine catalog on
            # which nothing else was ever evaluated (the properties derived
            # from the covariance matrix share one: its regularisation loop
            # can take seconds on degenerate sources) ...
            if p in COV_FAMILY:
                if getattr(st, 'cov_cat', None) is None:
                    st.cov_cat = self._build(st, st.scene)
                v = call(getattr, st.cov_cat, p)
            else:
                v = call(getattr, self._build(st, st.scene), p)
            # ... and the long-lived never-indexed catalog, on which the
            # properties pile up in the order the run asks for them, must
            # agree with it: a value must not depend on what was evaluated
            # beforehand
            v2 = call(getattr, st.fresh, p)
            d = diff(v, v2)
            if d is not None:
                v3 = call(getattr, self._build(st, st.scene), p)
                if diff(v, v3) is not None:
                    # not even two pristine catalogs agree: no reference
                    st.null_bad.add(p)
                    st.stats.probe('nondeterministic_skips')
                else:
                    raise Violation(
                        'commute', p,
                        f'cat.{p} on the never-indexed catalog depends on '
                        f'the properties evaluated before it: {d}')
            st.fvals[p] = v
        return st.fvals[p]

    def _is_cached_in(self, cat, p):
        return p in cat.__dict__

    # ------------------------------------------------------------------
    def next_op(self, rng, st):
        cfg = st.cfg
        nops = st.stats.steps
        k = rng.randrange(len(st.actors))
        a = st.actors[k]
        # warm-up: reads on the parent so that indexing meets a full cache
        if nops < 4 and rng.chance(cfg['pre_read']):
            return self._gen_read(rng, st, 0, many=True)
        # follow-ups: replacing an extra property matters for the next fancy
        # indexing of the *same* catalog object, and the other way round
        pend, st.pending = st.pending, None
        if pend and pend[1] < len(st.actors) and \
                not st.actors[pend[1]].scalar and len(st.actors) < 7 and \
                rng.chance(0.6):
            if pend[0] == 'index':
                op = self._gen_index(rng, st, pend[1])
                op['form'] = rng.pick(['list', 'bool', 'array', 'boollist'])
                n = len(st.actors[pend[1]].rows)
                if op['form'] in ('list', 'array'):
                    op['arg'] = [rng.randrange(-n, n)
                                 for _ in range(rng.randint(1, min(n, 4)))]
                else:
                    op['arg'] = [rng.chance(0.5) for _ in range(n)]
                    op['arg'][rng.randrange(n)] = True
                return op
            if pend[0] == 'fluxfrac':
                # after the full-flux radius: a smaller fraction, on the
                # same catalog or on a relative
                return {'op': 'phot', 'actor': rng.randrange(len(st.actors)),
                        'method': 'fluxfrac_radius',
                        'arg': rng.pick([0.5, 0.3, 0.9]), 'name': None}
            if st.actors[pend[1]].extras:
                return self._gen_extra(rng, st, pend[1], replace=True)
        r = rng.random()
        if r < 0.40:
            return self._gen_read(rng, st, k)
        if r < 0.68:
            if a.scalar:
                if rng.chance(0.15):
                    return {'op': 'index', 'actor': k, 'form': 'int',
                            'arg': 0}       # reject: scalar indexed
                return self._gen_read(rng, st, k)
            if len(st.actors) >= 7:
                return self._gen_read(rng, st, k)
            return self._gen_index(rng, st, k)
        if self.variant == 'source':
            if r < 0.80:
                return self._gen_extra(rng, st, k)
            if r < 0.88:
                return self._gen_phot(rng, st, k)
        if r < 0.93:
            return self._gen_table(rng, st, k)
        if r < 0.965:
            if self.variant == 'source':
                return {'op': 'method', 'actor': k,
                        'name': rng.pick(['make_circular_apertures',
                                          'make_kron_apertures',
                                          'make_cutouts', 'len', 'iter'])}
            return {'op': 'method', 'actor': k,
                    'name': rng.pick(['len', 'iter'])}
        if len(st.actors) < 7:
            return {'op': 'copy', 'actor': k}
        return self._gen_read(rng, st, k)

    def _gen_read(self, rng, st, k, many=False):
        w = [st.cfg['slow_weight'] * 0.15 if p in SLOW else 1.0
             for p in st.props]
        n = rng.randint(3, 10) if many else rng.randint(1, 3)
        ps = []
        for _ in range(n):
            p = rng.wpick(st.props, w)
            if p not in ps:
                ps.append(p)
        return {'op': 'read', 'actor': k, 'props': ps}

    def _gen_index(self, rng, st, k):
        a = st.actors[k]
        n = len(a.rows)
        form = rng.pick(['int', 'int', 'slice', 'list', 'bool', 'key',
                         'keys', 'boollist', 'array', 'npint', 'arr0d'])
        if form in ('int', 'npint', 'arr0d'):
            arg = rng.randrange(-n, n)
        elif form == 'array':
            m = rng.randint(1, min(n, 4))
            arg = [rng.randrange(-n, n) for _ in range(m)]
        elif form == 'boollist':
            arg = [rng.chance(0.5) for _ in range(n)]
            if not any(arg):
                arg[rng.randrange(n)] = True
        elif form == 'slice':
            start = rng.pick([None, 0, rng.randrange(n)])
            stop = rng.pick([None, n, rng.randint(1, n)])
            step = rng.pick([None, 1, 2, -1])
            arg = [start, stop, step]
            if len(range(n)[slice(start, stop, step)]) == 0:
                arg = [None, None, step]
        elif form == 'list':
            m = rng.randint(1, min(n, 4))
            arg = [rng.randrange(-n, n) for _ in range(m)]
        elif form == 'bool':
            arg = [rng.chance(0.5) for _ in range(n)]
            if not any(arg):
                arg[rng.randrange(n)] = True
        elif form in ('key', 'keys') and len(set(a.rows)) != len(a.rows):
            form = 'int'
            arg = rng.randrange(-n, n)
        elif form == 'key':
            arg = st.keys[rng.pick(a.rows)]
            if rng.chance(0.08):
                arg = max(st.keys) + 7       # reject: unknown label / id
        else:
            m = rng.randint(1, min(n, 3))
            arg = [st.keys[rng.pick(a.rows)] for _ in range(m)]
        return {'op': 'index', 'actor': k, 'form': form, 'arg': arg}

    def _gen_extra(self, rng, st, k, replace=False):
        a = st.actors[k]
        names = list(a.extras)
        r = rng.random()
        if replace:
            # same name, same kind of value, new values
            name = rng.pick(names)
            n = len(a.rows)
            old = a.extras[name]
            vals = [round(rng.uniform(-5, 5), 3) for _ in range(n)]
            valkind = 'array'
            if isinstance(old, list):
                valkind = 'strs' if isinstance(old[0], str) else 'list'
            if valkind == 'strs':
                vals = [f's{v}' for v in vals]
            return {'op': 'add_extra', 'actor': k, 'name': name,
                    'values': vals, 'kind': 'duplicate', 'valkind': valkind,
                    'overwrite': True}
        if r < 0.5 or not names:
            st.extra_counter += 1
            name = f'xp{st.extra_counter}'
            kind = 'ok'
            old = [x for x in st.old_names
                   if x not in names]
            if old and rng.chance(0.35):
                name = rng.pick(old)     # a name that was in use before
            r2 = rng.random()
            if r2 < 0.08:
                name = rng.pick(['area', 'label', '_data', 'segment_flux'])
                kind = 'builtin'
            elif r2 < 0.26 and names:
                name = rng.pick(names)
                kind = 'duplicate'
            elif r2 < 0.33:
                kind = 'wronglen'
            n = 1 if a.scalar else len(a.rows)
            vals = [round(rng.uniform(-5, 5), 3) for _ in range(n)]
            if kind == 'wronglen':
                vals = vals + [1.0, 2.0]
            valkind = rng.pick(['array', 'array', 'list', 'strs', 'tuple',
                                '2d', 'col', 'listarr', 'listnone'])
            if a.scalar and valkind in ('2d', 'col', 'listarr', 'listnone'):
                valkind = 'array'
            if valkind == 'strs':
                vals = [f's{v}' for v in vals]
            return {'op': 'add_extra', 'actor': k, 'name': name,
                    'values': vals, 'kind': kind, 'valkind': valkind,
                    'overwrite': kind == 'duplicate' and rng.chance(0.7)}
        if r < 0.75:
            st.extra_counter += 1
            old = rng.pick(names)
            new = f'xr{st.extra_counter}'
            if rng.chance(0.2):
                # rejected: the new name is a built-in property or taken
                new = rng.pick(['area', 'kron_flux', 'label']
                               + [n for n in names if n != old])
            return {'op': 'rename_extra', 'actor': k, 'name': old,
                    'new_name': new}
        if rng.chance(0.15):
            return {'op': 'remove_extra', 'actor': k, 'names': ['nosuch']}
        m = rng.randint(1, min(2, len(names)))
        return {'op': 'remove_extra', 'actor': k,
                'names': rng.sample(names, m)}

    def _gen_phot(self, rng, st, k):
        st.extra_counter += 1
        name = rng.pick([None, f'ph{st.extra_counter}'])
        used = sorted({n.rsplit('_flux', 1)[0] for n in st.actors[k].extras
                       if n.startswith('ph')})
        if rng.chance(0.2):
            # a name that is taken (rejected: the catalog stays as it was)
            name = rng.pick(used + ['kron', 'segment'])
        r = rng.random()
        if r < 0.45:
            return {'op': 'phot', 'actor': k, 'method': 'circular_photometry',
                    'arg': rng.pick([2.0, 3.5, -1.0]), 'name': name}
        if r < 0.75:
            return {'op': 'phot', 'actor': k, 'method': 'kron_photometry',
                    'arg': rng.pick([[2.5, 1.4], [3.0, 1.0, 2.0]]),
                    'name': name}
        return {'op': 'phot', 'actor': k, 'method': 'fluxfrac_radius',
                'arg': rng.pick([0.5, 0.9, 1.0, 1.0, 0.3, 1.5]),
                'name': name}

    def _gen_table(self, rng, st, k):
        a = st.actors[k]
        if rng.chance(0.5):
            cols = None
        else:
            sp = self._scalar_props(st)
            cols = rng.sample(sp, min(len(sp), rng.randint(1, 5)))
            cols += [n for n in list(a.extras)[:2]
                     if not (isinstance(a.extras[n], list) and any(
                         x is None or isinstance(x, np.ndarray)
                         for x in a.extras[n]))]
            if not cols:
                cols = None
        # the caller goes on working with its table (sorts it, overwrites a
        # column): the catalog it came from is not affected
        return {'op': 'table', 'actor': k, 'columns': cols,
                'edit': rng.chance(0.4)}

    def _scalar_props(self, st):
        if st.scalar_props is None:
            out = []
            # classification only (which properties a table can hold): done
            # on a catalog of its own, so that generating a run leaves the
            # reference catalogs exactly as replaying it finds them
            kc = self._build(st, st.scene)
            for p in st.props:
                v = call(getattr, kc, p)
                # per-source scalars and per-source arrays (centroid,
                # moments, covariance, ...): anything a table can hold
                if isinstance(v, np.ndarray) and v.ndim >= 1 and \
                        v.dtype.kind in 'iuf' \
                        and p not in ALWAYS_ITERABLE \
                        and len(v) == st.n:
                    out.append(p)
            st.scalar_props = out
        return st.scalar_props

    # ------------------------------------------------------------------
    def step(self, st, op):
        k = op.get('actor', 0)
        if k >= len(st.actors):
            raise Inapplicable('no such actor')
        a = st.actors[k]
        kind = op['op']
        if kind == 'read':
            for p in op['props']:
                self._read(st, a, p)
        elif kind == 'index':
            self._index(st, a, op)
        elif kind == 'copy':
            c = call(a.cat.copy)
            if isinstance(c, Raised):
                raise Violation('raises', 'copy', repr(c))
            st.actors.append(_Actor(c, list(a.rows), a.scalar,
                                    _copy.deepcopy(a.extras),
                                    set(a.cat.__dict__)))
        elif kind in ('add_extra', 'rename_extra', 'remove_extra', 'phot'):
            if self.variant != 'source':
                raise Inapplicable(kind)
            getattr(self, '_' + kind)(st, a, op)
            self._check_family_extras(st, op)
        elif kind == 'table':
            self._table(st, a, op)
        elif kind == 'method':
            self._method(st, a, op)
        else:
            raise Inapplicable(kind)

    # --- reads ------------------------------------------------------------
    def _read(self, st, a, p, context='read'):
        if p not in st.props:
            raise Inapplicable(p)
        was_cached = self._is_cached_in(a.cat, p)
        val = call(getattr, a.cat, p)
        st.trace.add('read', p, digest(val))
        fv = self._fval(st, p)
        if p in st.null_bad:
            return
        if isinstance(val, Raised):
            if isinstance(fv, Raised) and fv.type == val.type:
                st.stats.probe('read_raises_like_reference')
                return
            raise Violation('raises', p,
                            f'reading {p} on a catalog indexed as rows '
                            f'{a.rows} (scalar={a.scalar}) raised {val!r}; '
                            'the never-indexed catalog evaluates it')
        if isinstance(fv, Raised):
            st.stats.probe('reference_raises_only')
            return
        if p in GLOBAL_PROPS:
            exp = (a.scalar if p == 'isscalar'
                   else (1 if a.scalar else len(a.rows)))
        else:
            exp = call(select, fv, a.rows,
                       a.scalar and p not in ALWAYS_ITERABLE)
        if isinstance(exp, Raised):
            raise RuntimeError(f'select failed for {p}: {exp!r}')
        # numeric equality: an all-integer result may be float in the
        # full catalog only because another row holds a NaN
        d = diff(val, exp, RTOL, ATOL, check_dtype=False)
        if d:
            raise Violation('commute', p,
                            f'cat[rows={a.rows}, scalar={a.scalar}].{p} '
                            f'differs from cat.{p}[rows]: {d}')
        cached_anc = p in a.cached_at_birth
        st.stats.sig(f'{p}|{int(cached_anc)}|{a.scalar and 1 or 0}|'
                     f'{getattr(a, "form", "-")}')
        if a.scalar and not cached_anc and not was_cached:
            st.stats.probe('scalar_after_index_uncached')
        if cached_anc:
            st.stats.probe('read_of_value_sliced_from_ancestor_cache')

    # --- indexing -----------------------------------------------------------
    def _index(self, st, a, op):
        form, arg = op['form'], op['arg']
        n = len(a.rows)
        cat = a.cat
        if a.scalar:
            out = call(lambda: cat[0])
            st.stats.fault('reject')
            if not isinstance(out, Raised):
                raise Violation('reject', 'index_scalar',
                                'indexing a scalar catalog did not raise')
            return
        pos = None
        if form in ('int', 'npint', 'arr0d'):
            if not (-n <= arg < n):
                raise Inapplicable('index out of range')
            pos = [range(n)[arg]]
            scalar = True
            # an integer carried by a numpy scalar or by a 0-d array
            # (np.flatnonzero(...).squeeze()) is the same index
            idx = {'npint': np.int64(arg), 'arr0d': np.array(arg),
                   'int': arg}[form]
            out = call(lambda: cat[idx])
        elif form == 'array':
            if any(not (-n <= i < n) for i in arg):
                raise Inapplicable('index out of range')
            pos = [range(n)[i] for i in arg]
            scalar = False
            idx_obj = np.array(arg)
            out = call(lambda: cat[idx_obj])
        elif form == 'boollist':
            # a boolean mask given as a plain Python list
            if len(arg) != n:
                raise Inapplicable('mask length')
            pos = [i for i, b in enumerate(arg) if b]
            scalar = False
            idx_obj = [bool(b) for b in arg]
            out = call(lambda: cat[idx_obj])
        elif form == 'slice':
            sl = slice(*arg)
            pos = list(range(n)[sl])
            scalar = False
            out = call(lambda: cat[sl])
        elif form == 'list':
            if any(not (-n <= i < n) for i in arg):
                raise Inapplicable('index out of range')
            pos = [range(n)[i] for i in arg]
            scalar = False
            idx_obj = list(arg)
            out = call(lambda: cat[idx_obj])
        elif form == 'bool':
            if len(arg) != n:
                raise Inapplicable('mask length')
            pos = [i for i, b in enumerate(arg) if b]
            scalar = False
            idx_obj = np.array(arg, dtype=bool)
            out = call(lambda: cat[idx_obj])
        elif form in ('key', 'keys'):
            getter = ('get_label' if form == 'key' else 'get_labels') \
                if self.variant == 'source' else \
                ('get_id' if form == 'key' else 'get_ids')
            keys_here = [st.keys[r] for r in a.rows]
            want = [arg] if form == 'key' else list(arg)
            if any(w not in st.keys for w in want):
                out = call(getattr(cat, getter), arg)
                st.stats.fault('reject')
                if not isinstance(out, Raised):
                    raise Violation('reject', getter,
                                    f'{getter}({arg}) accepted an unknown '
                                    'label/id')
                return
            if any(w not in keys_here for w in want):
                raise Inapplicable('key not in this catalog')
            if any(keys_here.count(w) > 1 for w in want):
                # the catalog holds the same source twice (fancy index with
                # repeats): which of the two rows a label selects is not
                # specified, so no expectation is formed
                raise Inapplicable('ambiguous key')
            pos = [keys_here.index(w) for w in want]
            scalar = form == 'key'
            out = call(getattr(cat, getter), arg)
        else:
            raise Inapplicable(form)
        if not pos:
            raise Inapplicable('empty selection')
        if form in ('array', 'bool', 'list', 'boollist'):
            # the index is the caller's own object: it refills it for its
            # next selection as soon as the indexing has returned
            if isinstance(idx_obj, list):
                idx_obj.reverse()
                idx_obj.append(idx_obj[0])
            else:
                idx_obj[...] = idx_obj[::-1].copy()
                if idx_obj.dtype == bool:
                    idx_obj[...] = ~idx_obj
        if isinstance(out, Raised):
            raise Violation('raises', 'index_' + form,
                            f'cat[{form} {arg}] raised {out!r}')
        child = _Actor(out, [a.rows[i] for i in pos], scalar,
                       self._select_extras(a, pos, scalar),
                       set(cat.__dict__))
        child.form = form
        st.actors.append(child)
        st.nidx += 1
        st.trace.add('index', form, str(arg))
        ncached = len(child.cached_at_birth & set(st.props))
        if ncached >= 10:
            st.stats.probe('index_with_ge10_cached_properties')
        if form in ('list', 'bool', 'boollist', 'array'):
            st.stats.probe('fancy_index')
            if a.extras:
                st.pending = ('replace', st.actors.index(a))
        # the child must present its extras right away
        if self.variant == 'source':
            self._check_family_extras(st, op)

    @staticmethod
    def _select_extras(a, pos, scalar):
        out = {}
        for name, vals in a.extras.items():
            if isinstance(vals, list):
                out[name] = (vals[pos[0]] if scalar
                             else [vals[i] for i in pos])
                continue
            v = vals if hasattr(vals, 'unit') else np.asarray(vals)
            if np.ndim(v) == 0:
                v = v.reshape(1) if hasattr(v, 'reshape') else \
                    np.atleast_1d(v)
            out[name] = (v[pos[0]] if scalar else v[pos])
        return out

    # --- extra properties ------------------------------------------------
    def _add_extra(self, st, a, op):
        name, vals, kind = op['name'], op['values'], op['kind']
        overwrite = bool(op.get('overwrite'))
        n = 1 if a.scalar else len(a.rows)
        valkind = op.get('valkind', 'array')
        if valkind == 'array':
            value = np.array(vals, dtype=float)
        elif valkind in ('2d', 'col'):
            # one row per source: an (n, 2) or (n, 1) array
            v1 = np.array(vals, dtype=float)
            value = (np.column_stack([v1, 2 * v1 + 1]) if valkind == '2d'
                     else v1[:, np.newaxis])
            st.stats.probe('extra_array_per_source')
        elif valkind in ('listarr', 'listnone'):
            # per-source objects: arrays of different lengths / a missing one
            value = [np.arange(i % 3 + 1) + float(v)
                     for i, v in enumerate(vals)]
            if valkind == 'listnone':
                value = [float(v) for v in vals]
                value[0] = None
            st.stats.probe('extra_object_per_source')
        else:
            # a plain Python list (of floats or of strings): the catalog
            # keeps it as a list and indexes it through another path
            value = tuple(vals) if valkind == 'tuple' else list(vals)
            st.stats.probe('extra_list_valued')
        wrong = len(vals) != n
        if a.scalar and not wrong:
            value = vals[0] if valkind == 'strs' else float(vals[0])
        dup = name in a.extras
        builtin = (name in st.props or name.startswith('_')
                   or hasattr(type(a.cat), name)
                   or (name in a.cat.__dict__ and not dup))
        should_reject = wrong or builtin or (dup and not overwrite)
        out = call(a.cat.add_extra_property, name, value,
                   overwrite=overwrite)
        if should_reject:
            st.stats.fault('reject')
            if not isinstance(out, Raised):
                raise Violation('reject', 'add_extra_property',
                                f'add_extra_property({name!r}, len '
                                f'{len(vals)}, overwrite={overwrite}) on a '
                                f'catalog of {n} rows was accepted')
            return
        if isinstance(out, Raised):
            raise Violation('raises', 'add_extra_property', repr(out))
        if dup:
            st.stats.probe('extra_overwritten')
        if (dup or name in st.old_names) and not a.scalar:
            st.pending = ('index', st.actors.index(a))
        if name in st.old_names:
            st.stats.probe('extra_name_reused')
        a.extras[name] = value if valkind in ('array', '2d', 'col') \
            or a.scalar else list(value)
        st.stats.probe('extra_added')

    def _rename_extra(self, st, a, op):
        name, new = op['name'], op['new_name']
        if name not in a.extras:
            raise Inapplicable('no such extra')
        out = call(a.cat.rename_extra_property, name, new)
        if new in a.extras or new in st.props or hasattr(type(a.cat), new):
            # the new name is not available: the call is refused and the
            # catalog keeps the property under its old name (checked by
            # _check_family_extras right after this step)
            st.stats.fault('reject')
            if not isinstance(out, Raised):
                raise Violation('reject', 'rename_extra_property',
                                f'rename to {new!r} accepted')
            return
        odd = a.scalar and not (np.isscalar(a.extras[name]) or (
            hasattr(a.extras[name], 'unit') and np.ndim(
                a.extras[name]) == 0))
        if odd:
            # a single-source catalog whose value for this property is
            # itself an array (a row of an (n, k) extra property) or an
            # object (None, an aperture): the
            # library re-validates the value on rename and refuses it, or
            # unwraps a length-1 row - a defect of rename on its own, not of
            # indexing or of independence (DESIGN section 5, observations);
            # the model follows the object here
            st.stats.probe('rename_on_scalar_child_with_array_value')
            if isinstance(out, Raised):
                return
            a.extras[name] = getattr(a.cat, new)
        if isinstance(out, Raised):
            raise Violation('raises', 'rename_extra_property', repr(out))
        items = [(new if k == name else k, v) for k, v in a.extras.items()]
        a.extras = dict(items)
        st.old_names.append(name)

    def _remove_extra(self, st, a, op):
        names = op['names']
        bad = [x for x in names if x not in a.extras]
        arg = names[0] if len(names) == 1 else list(names)
        out = call(a.cat.remove_extra_properties, arg)
        if bad:
            st.stats.fault('reject')
            if not isinstance(out, Raised):
                raise Violation('reject', 'remove_extra_properties',
                                f'removing {bad} was accepted')
            # names before the bad one may legitimately be gone or not;
            # resynchronise the model with the object (only this actor)
            a.extras = {k: v for k, v in a.extras.items()
                        if k in a.cat.extra_properties}
            return
        if isinstance(out, Raised):
            raise Violation('raises', 'remove_extra_properties', repr(out))
        for x in names:
            a.extras.pop(x)
            st.old_names.append(x)

    def _phot(self, st, a, op):
        method, arg, name = op['method'], op['arg'], op['name']
        if isinstance(arg, list):
            arg = tuple(arg)
        invalid = ((method == 'circular_photometry' and arg <= 0)
                   or (method == 'fluxfrac_radius' and not 0 < arg <= 1))
        new_names = ([] if not name else [name] if method ==
                     'fluxfrac_radius' else [f'{name}_flux',
                                             f'{name}_fluxerr'])
        clash = [n for n in new_names if n in a.extras or n in st.props
                 or hasattr(type(a.cat), n)]
        out = call(getattr(a.cat, method), arg, name=name)
        ref = call(getattr(st.fresh, method), arg)
        if st.cfg.get('pristine_ref', True):
            # as for the properties: the reference comes from a pristine
            # catalog, and the long-lived one must agree with it
            ref0 = call(getattr(self._build(st, st.scene), method), arg)
            d = diff(ref0, ref)
            if d is not None and not (isinstance(ref0, Raised)
                                      and isinstance(ref, Raised)):
                ref1 = call(getattr(self._build(st, st.scene), method), arg)
                if diff(ref0, ref1) is None:
                    raise Violation(
                        'commute', method,
                        f'{method}({arg}) on the never-indexed catalog '
                        f'depends on what was evaluated before it: {d}')
            ref = ref0
        st.trace.add('phot', method, digest(out))
        if clash and not invalid_arg(method, arg):
            st.stats.fault('reject')
            if not isinstance(out, Raised):
                raise Violation('reject', method,
                                f'{method}({arg}, name={name!r}) accepted '
                                f'although {clash} exist')
            # whatever was added before the clash was noticed belongs to
            # this catalog only; everything else is as before (the reads
            # that follow compare with the never-touched reference)
            for n in call(lambda: list(a.cat.extra_properties)):
                if n not in a.extras:
                    a.extras[n] = getattr(a.cat, n)
            st.stats.probe('photometry_name_rejected')
            return
        if invalid:
            st.stats.fault('reject')
            if not isinstance(out, Raised):
                raise Violation('reject', method, f'{method}({arg}) accepted')
            return
        if isinstance(out, Raised):
            if isinstance(ref, Raised) and ref.type == out.type:
                return
            raise Violation('raises', method,
                            f'{method}({arg}) on rows {a.rows} raised '
                            f'{out!r}')
        if method == 'fluxfrac_radius' and arg == 1.0:
            st.pending = ('fluxfrac', st.actors.index(a))
        if method == 'fluxfrac_radius':
            outs = {name: out} if name else {}
        else:
            outs = ({f'{name}_flux': out[0], f'{name}_fluxerr': out[1]}
                    if name else {})
        if isinstance(ref, Raised):
            # the full catalog cannot evaluate the method (another row
            # raises): nothing to compare with, but the extras exist
            st.stats.probe('phot_reference_raises')
            d = None
        elif method == 'fluxfrac_radius':
            exp = select(ref, a.rows, a.scalar) if np.ndim(ref) else ref
            d = diff(out, exp, 1e-7, 1e-9)
        else:
            exp = tuple(select(x, a.rows, a.scalar) if np.ndim(x) else x
                        for x in ref)
            d = diff(tuple(out), exp, RTOL, ATOL)
        if d:
            raise Violation('commute', method,
                            f'{method}({arg}) on rows {a.rows}: {d}')
        for k, v in outs.items():
            a.extras[k] = v
        if outs:
            st.stats.probe('photometry_added_extra')

    def _check_family_extras(self, st, op):
        """Independence: every member reports exactly its own extras."""
        for j, b in enumerate(st.actors):
            got = call(lambda: list(b.cat.extra_properties))
            exp = list(b.extras)
            if isinstance(got, Raised) or got != exp:
                raise Violation('independence', 'extra_properties',
                                f'after {_short(op)} actor {j} (rows '
                                f'{b.rows}) lists {got}, expected {exp}')
            for name, vals in b.extras.items():
                v = call(getattr, b.cat, name)
                if isinstance(v, Raised):
                    raise Violation('independence', 'extra_value',
                                    f'actor {j}: {name}: {v!r}')
                if isinstance(v, tuple) and isinstance(vals, list):
                    v = list(v)      # given as a tuple: content counts
                d = diff(v, vals, 1e-7, 1e-9, check_dtype=False)
                if d:
                    raise Violation('independence', 'extra_value',
                                    f'after {_short(op)} actor {j} (rows '
                                    f'{b.rows}) {name}: {d}')
            # ... and the same meta as when it came into being, whatever
            # its relatives did since
            md = digest({str(k): plain(v) for k, v in dict(
                b.cat.meta).items()})
            if getattr(b, 'meta0', None) is None:
                b.meta0 = md
            elif md != b.meta0 and j != op.get('actor'):
                raise Violation('independence', 'meta',
                                f'after {_short(op)} actor {j} (rows '
                                f'{b.rows}) reports another meta: '
                                f'{dict(b.cat.meta)}')
        if len(st.actors) > 1:
            st.stats.probe('family_extras_checked_multi')

    # --- per-source methods -------------------------------------------------
    def _method(self, st, a, op):
        name = op['name']
        cat = a.cat
        n = 1 if a.scalar else len(a.rows)
        if name == 'len':
            out = call(len, cat)
            if a.scalar:
                st.stats.fault('reject')
                if not isinstance(out, Raised):
                    raise Violation('reject', 'len',
                                    'len() of a scalar catalog did not raise')
                return
            if isinstance(out, Raised) or out != n:
                raise Violation('commute', 'len', f'{out!r} vs {n}')
            return
        if name == 'iter':
            if a.scalar:
                return
            key = 'label' if self.variant == 'source' else 'id'
            out = call(lambda: [int(getattr(c, key)) for c in cat])
            exp = [st.keys[r] for r in a.rows]
            if isinstance(out, Raised) or out != exp:
                raise Violation('commute', 'iter', f'{out!r} vs {exp}')
            if self.variant == 'source' and n >= 2:
                # an extra property added to the catalog while a loop over
                # it is under way: the children still to come carry it
                st.extra_counter += 1
                nm = f'xi{st.extra_counter}'
                vals = np.arange(n, dtype=float) + 0.25
                it = iter(cat)
                first = call(next, it)
                addr = call(cat.add_extra_property, nm, vals)
                second = call(next, it)
                if isinstance(addr, Raised) or isinstance(second, Raised) \
                        or isinstance(first, Raised):
                    raise Violation('raises', 'iter',
                                    f'{first!r} {addr!r} {second!r}')
                a.extras[nm] = vals
                got = call(getattr, second, nm)
                tbl = call(second.to_table, columns=['label', nm])
                if isinstance(got, Raised) or isinstance(tbl, Raised) or \
                        diff(got, vals[1], 1e-12, 0.0, check_dtype=False):
                    raise Violation('independence', 'extra_value',
                                    f'second child of a loop over rows '
                                    f'{a.rows}: {nm} added to the catalog '
                                    f'after the first child: {got!r} '
                                    f'{tbl!r}')
                st.stats.probe('extra_added_during_iteration')
            return
        if self.variant != 'source':
            raise Inapplicable(name)
        args = {'make_circular_apertures': (2.5,), 'make_kron_apertures': (),
                'make_cutouts': ((5, 7),)}[name]
        out = call(getattr(cat, name), *args)
        ref = call(getattr(st.fresh, name), *args)
        st.trace.add('method', name, digest(out))
        if isinstance(out, Raised):
            if isinstance(ref, Raised) and ref.type == out.type:
                return
            raise Violation('raises', name, f'rows {a.rows}: {out!r}')
        if isinstance(ref, Raised):
            return
        exp = select(ref, a.rows, a.scalar)
        d = diff(out, exp, RTOL, ATOL, check_dtype=False)
        if d:
            raise Violation('commute', name,
                            f'{name} on rows {a.rows} (scalar={a.scalar}): '
                            f'{d}')
        st.stats.probe('method_checked')

    # --- tables -------------------------------------------------------------
    def _table(self, st, a, op):
        cols = op['columns']
        if cols is not None:
            cols = [c for c in cols
                    if c in st.props or c in a.extras]
            if not cols:
                raise Inapplicable('no columns')
        out = call(a.cat.to_table, columns=cols)
        if isinstance(out, Raised):
            ref = call(st.fresh.to_table,
                       columns=None if cols is None else
                       [c for c in cols if c in st.props])
            if isinstance(ref, Raised) and ref.type == out.type:
                st.stats.probe('table_raises_like_reference')
                return
            raise Violation('raises', 'to_table',
                            f'to_table({cols}) on rows {a.rows} '
                            f'(extras {list(a.extras)}) raised {out!r}')
        st.trace.add('table', digest(out))
        names = list(out.colnames)
        want = list(a.cat.default_columns) if cols is None else cols
        if names != want:
            raise Violation('commute', 'to_table', f'{names} vs {want}')
        nrow = 1 if a.scalar else len(a.rows)
        if len(out) != nrow:
            raise Violation('commute', 'to_table',
                            f'{len(out)} rows for {nrow} sources')
        for c in names:
            if c in a.extras:
                exp = np.atleast_1d(np.asarray(a.extras[c]))
                if a.scalar and exp.ndim >= 1 and np.ndim(
                        a.extras[c]) >= 1:
                    exp = np.asarray(a.extras[c])[np.newaxis]  # one row
                got = out[c]
                d = diff(np.asarray(getattr(got, 'value', got)),
                         np.asarray(getattr(exp, 'value', exp)),
                         1e-7, 1e-9, check_dtype=False)
            else:
                fv = self._fval(st, c)
                if c in st.null_bad or isinstance(fv, Raised):
                    continue
                exp = select(fv, a.rows, False)
                got = out[c]
                if isinstance(exp, list) or getattr(exp, 'dtype',
                                                    None) == object:
                    continue
                if hasattr(got, 'unit') and not hasattr(exp, 'unit'):
                    got = got.value
                d = diff(got if hasattr(got, 'frame') or hasattr(
                    got, 'unit') else np.asarray(got), exp, RTOL, ATOL,
                    check_dtype=False)
            if d:
                raise Violation('commute', 'to_table', f'column {c}: {d}')
        st.stats.probe('table_checked')
        if op.get('edit') and len(out) >= 1:
            call(out.reverse)
            if len(out) >= 2:
                call(out.sort, names[0], reverse=True)
            for c in names:
                col = out[c]
                if hasattr(col, 'frame'):          # SkyCoord column
                    continue
                if getattr(getattr(col, 'dtype', None), 'kind', '') in 'iuf':
                    call(lambda: col.__setitem__(
                        Ellipsis, 7 * (getattr(col, 'unit', None) or 1)))
            st.stats.probe('table_edited_in_place')

    def finish(self, st):
        # closing sweep: a handful of properties on every member
        for a in st.actors:
            for p in st.props[::7]:
                self._read(st, a, p, context='finish')

    def nontrivial(self, plan, st):
        return st.nidx >= 1

    # ------------------------------------------------------------------
    def simpler_ops(self, op):
        if op.get('op') == 'read' and len(op['props']) > 1:
            for p in op['props']:
                yield {**op, 'props': [p]}
        if op.get('op') == 'index' and op['form'] in ('list', 'keys') and \
                len(op['arg']) > 1:
            yield {**op, 'arg': op['arg'][:1]}
        if op.get('op') == 'table' and op.get('columns'):
            for c in op['columns']:
                yield {**op, 'columns': [c]}

    def simpler_scenes(self, plan):
        cfg = plan['cfg']
        for key in ('detcat', 'wcs', 'unit', 'background', 'error', 'mask',
                    'convolved', 'sigma_clip'):
            if cfg.get(key):
                p = dict(plan)
                p['cfg'] = {**cfg, key: False}
                yield p
        if cfg.get('localbkg_width'):
            p = dict(plan)
            p['cfg'] = {**cfg, 'localbkg_width': 0}
            yield p


def _short(op):
    return {k: v for k, v in op.items() if k not in ('values',)}
