"""C05 - SegmentationImage attributes always describe the current label
array.  Histories of mutators x cached-attribute reads x rejected calls over
a family of images (original, copies, slices)."""

from __future__ import annotations

import numpy as np

from simphot import scenes
from simphot.compare import diff, digest
from simphot.kernel import (Inapplicable, Machine, Raised, Violation, call,
                            dec, enc)

READ_ATTRS = ['labels', 'nlabels', 'max_label', 'areas', 'slices', 'bbox',
              'segments', 'polygons', 'missing_labels', 'is_consecutive',
              'background_area', 'data_ma', 'shape', 'deblended_labels',
              'deblended_labels_map', 'deblended_labels_inverse_map', 'cmap',
              'str']
READ_W = [6, 3, 4, 5, 6, 3, 2, 2, 2, 3, 2, 1, 1, 3, 2, 3, 1, 1]
# Labels are kept <= 127 (the int8 maximum) for every dtype: arguments that
# would push a label beyond its dtype are outside what the API documents,
# and label values of 2**31 and more make the (documented) label-indexed
# maps of scipy.ndimage.find_objects exhaust memory.
LABEL_CAP = 127
MUTATORS = ['reassign_label', 'reassign_labels', 'relabel_consecutive',
            'keep_label', 'keep_labels', 'remove_label', 'remove_labels',
            'remove_border_labels', 'remove_masked_labels', 'set_data']


class _Actor:
    def __init__(self, obj, model, dmap):
        self.obj = obj
        self.M = model              # numpy reference model of the array
        self.dmap = dmap            # expected {parent: [children]} or None
        self.cached_at_mut = []


class _St:
    pass


def _labels(a):
    u = np.unique(a)
    return u[u != 0]


def _consecutive(M, start=1):
    labs = _labels(M)
    out = np.zeros_like(M)
    for i, lab in enumerate(labs):
        out[M == lab] = i + start
    return out, {int(l): i + start for i, l in enumerate(labs)}


class SegmMachine(Machine):
    pid = 'C05'
    name = 'segm'
    max_ops = 30
    real_components = ['SegmentationImage (all mutators and lazy attributes)',
                       'Segment', 'detect_sources', 'deblend_sources',
                       'rasterio/shapely polygon extraction']
    stub_components = ['none (public API only; HAS_RASTERIO/HAS_SHAPELY '
                       'flipped per run as a fast-path-off fault)']
    rule = ('one run = one initial image (random label array of any integer '
            'dtype / detect_sources output / deblend_sources output) and up '
            'to 30 operations (mutators, attribute reads, rejected calls, '
            'copies, slices); distinct = distinct (set of cached attributes '
            'at the time of a mutation, mutator, relabel flag) triples')

    def make_cfg(self, rng, avoid):
        return {
            'init': rng.wpick(['array', 'detect', 'deblend'], [6, 2, 3]),
            'fast_path_off': rng.chance(0.15),
            'read_after_mut': rng.pick([0.3, 0.7, 0.9]),
            'reject_rate': rng.pick([0.05, 0.15]),
            'relabel_bias': rng.pick([0.2, 0.5]),
            'avoid': sorted(avoid),
        }

    def make_scene(self, rng, cfg):
        if cfg['init'] == 'array':
            return {'arr': enc(scenes.label_array(rng))}
        sc = scenes.blend_scene(rng, max_side=28)
        thr = rng.pick([1.0, 2.0, 4.0]) * max(sc['noise'], 0.5) + sc['offset']
        out = {'data': enc(sc['data']), 'threshold': thr,
               'npixels': rng.pick([1, 3, 5]),
               'connectivity': rng.pick([4, 8])}
        if cfg['init'] == 'deblend':
            out.update({'gaps': [rng.randint(1, 4) for _ in range(12)]
                        if rng.chance(0.5) else None,
                        'nlevels': rng.pick([4, 16, 32]),
                        'contrast': rng.pick([0.0, 1e-3, 0.05]),
                        'mode': rng.pick(['exponential', 'linear', 'sinh']),
                        'relabel': rng.chance(0.5)})
            if rng.chance(0.35):
                # the image comes out of the multi-process path (simulated
                # pool, arbitrary completion order)
                order = list(range(12))
                rng.shuffle(order)
                out['pool'] = {'nproc': rng.pick([2, 3]),
                               'sched': {'mode': 'adversary', 'order': order,
                                         'head_perm': [], 'cpu_count': 4}}
            if rng.chance(0.3):
                # two passes: the first result is deblended again
                out['second_pass'] = {'nlevels': rng.pick([16, 32]),
                                      'contrast': rng.pick([0.0, 1e-4]),
                                      'mode': rng.pick(['exponential',
                                                        'linear']),
                                      'relabel': rng.chance(0.5)}
        return out

    # ------------------------------------------------------------------
    def start(self, plan, stats, trace):
        from photutils.segmentation import (SegmentationImage, deblend_sources,
                                            detect_sources)
        import photutils.segmentation.core as core
        st = _St()
        st.stats, st.trace, st.cfg = stats, trace, plan['cfg']
        sc = plan['scene']
        st.core = core
        st.saved_flags = (core.HAS_RASTERIO, core.HAS_SHAPELY)
        st.fast_off = bool(st.cfg.get('fast_path_off'))
        if st.fast_off:
            stats.fault('fast_path_off')
        dmap = {}
        if 'arr' in sc:
            arr = dec(sc['arr'])
            try:
                obj = SegmentationImage(arr.copy())
            except Exception as e:
                raise Inapplicable(str(e)) from e
        else:
            data = dec(sc['data'])
            obj = call(detect_sources, data, sc['threshold'], sc['npixels'],
                       connectivity=sc['connectivity'])
            if obj is None or isinstance(obj, Raised):
                arr = np.zeros(data.shape, dtype=np.int32)
                arr[data.shape[0] // 2, data.shape[1] // 2] = 1
                obj = SegmentationImage(arr)
                stats.probe('init_fallback')
            elif 'nlevels' in sc:
                if sc.get('gaps'):
                    # input image with non-consecutive labels (monotone map)
                    arr = obj.data
                    labs = _labels(arr)
                    steps = (sc['gaps'] * (len(labs) // len(sc['gaps']) + 1)
                             )[:len(labs)]
                    m = np.zeros(int(arr.max()) + 1, dtype=arr.dtype)
                    m[labs] = np.cumsum(steps)
                    obj = SegmentationImage(m[arr])
                    stats.probe('deblend_input_with_label_gaps')
                def deb(img, p, nproc=1):
                    return call(deblend_sources, data, img, sc['npixels'],
                                nlevels=p['nlevels'], contrast=p['contrast'],
                                mode=p['mode'],
                                connectivity=sc['connectivity'],
                                relabel=p['relabel'], progress_bar=False,
                                nproc=nproc)
                pool = sc.get('pool')
                if pool:
                    from simphot.simpool import installed
                    with installed(pool['sched']):
                        obj2 = deb(obj, sc, pool['nproc'])
                    stats.probe('init_through_simulated_pool')
                    # the bookkeeping of the image is that of the serial
                    # path on an equal input (the array is C06's business,
                    # the maps are what C05's reads are compared with)
                    ser = deb(SegmentationImage(obj.data.copy()), sc)
                    if not isinstance(obj2, Raised) and not isinstance(
                            ser, Raised):
                        m1 = {int(k): [int(x) for x in v] for k, v in
                              obj2._deblend_label_map.items()}
                        m2 = {int(k): [int(x) for x in v] for k, v in
                              ser._deblend_label_map.items()}
                        if m1 != m2 or not np.array_equal(obj2.data,
                                                          ser.data):
                            raise Violation(
                                'bookkeeping', 'pool_vs_serial',
                                f'deblend map from nproc={pool["nproc"]} '
                                f'{m1} differs from the serial one {m2}')
                else:
                    obj2 = deb(obj, sc)
                if isinstance(obj2, Raised):
                    raise Violation('raises', 'deblend_sources', repr(obj2))
                obj_in = obj
                obj = obj2
                extra_in = []
                if sc.get('second_pass'):
                    # deblend the result once more: the first-pass image
                    # (array and bookkeeping) stays what it was
                    dm2 = {int(k): [int(x) for x in v] for k, v in
                           obj2._deblend_label_map.items()}
                    obj3 = deb(obj2, sc['second_pass'])
                    if not isinstance(obj3, Raised):
                        extra_in.append((obj2, dm2))
                        obj = obj3
                        stats.probe('init_two_pass_deblend')
                dmap = {int(k): [int(x) for x in v]
                        for k, v in obj._deblend_label_map.items()}
                if dmap:
                    stats.probe('init_with_deblend_map')
        st.actors = [_Actor(obj, obj.data.copy(), dmap)]
        if 'nlevels' in sc and 'obj_in' in locals():
            # the image handed to deblend_sources stays in the family: label
            # operations on the result are not operations on it
            st.actors.append(_Actor(obj_in, obj_in.data.copy(), {}))
            for o2, dm in extra_in:
                st.actors.append(_Actor(o2, o2.data.copy(), dm))
        st.nmut = 0
        st.pending_read = None
        return st

    def _with_flags(self, st, fn):
        if not st.fast_off:
            return fn()
        core = st.core
        core.HAS_RASTERIO, core.HAS_SHAPELY = False, False
        try:
            return fn()
        finally:
            core.HAS_RASTERIO, core.HAS_SHAPELY = st.saved_flags

    # ------------------------------------------------------------------
    def next_op(self, rng, st):
        cfg = st.cfg
        k = rng.randrange(len(st.actors))
        a = st.actors[k]
        if st.pending_read is not None:
            k = st.pending_read
            a = st.actors[k]
            st.pending_read = None
            if rng.chance(cfg['read_after_mut']):
                return self._gen_read(rng, k)
        r = rng.random()
        if r < 0.42:
            st.pending_read = k
            return self._gen_mut(rng, st, k)
        if r < 0.80:
            return self._gen_read(rng, k)
        if r < 0.88:
            return self._gen_query(rng, st, k)
        if r < 0.94 and len(st.actors) < 4:
            return {'op': 'copy', 'actor': k}
        if len(st.actors) < 4 and min(a.M.shape) >= 2:
            ny, nx = a.M.shape
            y0 = rng.randint(0, ny - 1)
            y1 = rng.randint(y0 + 1, ny)
            x0 = rng.randint(0, nx - 1)
            x1 = rng.randint(x0 + 1, nx)
            return {'op': 'slice', 'actor': k, 'ys': [y0, y1], 'xs': [x0, x1]}
        return self._gen_read(rng, k)

    def _gen_read(self, rng, k):
        n = rng.randint(1, 5)
        attrs = []
        for _ in range(n):
            x = rng.wpick(READ_ATTRS, READ_W)
            if x not in attrs:
                attrs.append(x)
        return {'op': 'read', 'actor': k, 'attrs': attrs}

    def _pick_labels(self, rng, a, st, many=True, allow_empty=True):
        labs = [int(x) for x in _labels(a.M)]
        if rng.chance(st.cfg['reject_rate']):
            bad = rng.pick([0, -1, (max(labs) if labs else 0) + rng.randint(
                1, 3)])
            if many and labs and rng.chance(0.5):
                return [rng.pick(labs), bad]
            return [bad] if many else bad
        if not labs:
            return [] if many else 1
        if not many:
            return rng.pick(labs)
        if allow_empty and rng.chance(0.1):
            return []
        k = rng.randint(1, min(len(labs), 3))
        out = rng.sample(labs, k)
        if rng.chance(0.1):
            out.append(out[0])   # repeated label
        return out

    def _gen_mut(self, rng, st, k):
        a = st.actors[k]
        cfg = st.cfg
        name = rng.wpick(MUTATORS, [2, 4, 4, 2, 3, 2, 4, 3, 3, 1])
        relabel = rng.chance(cfg['relabel_bias'])
        labs = [int(x) for x in _labels(a.M)]
        info = np.iinfo(a.M.dtype)
        args = {}
        if name in ('reassign_label', 'reassign_labels'):
            args['labels'] = self._pick_labels(
                rng, a, st, many=(name == 'reassign_labels'))
            r = rng.random()
            hi = max(labs) if labs else 0
            if r < 0.35 and labs:
                new = rng.pick(labs)              # merge
            elif r < 0.7:
                new = min(hi + rng.randint(1, 4), LABEL_CAP)  # fresh
            elif r < 0.8:
                new = 0
            else:
                new = rng.randint(1, max(hi, 1))  # maybe a gap value
            args['new_label'] = int(new)
            args['relabel'] = relabel
        elif name == 'relabel_consecutive':
            r = rng.random()
            if r < 0.5:
                args['start_label'] = 1
            elif r < 0.85:
                args['start_label'] = rng.randint(2, 9)
            elif r < 0.93:
                args['start_label'] = rng.pick([0, -2])
            else:
                # up to the cap (labels never exceed LABEL_CAP = int8 max)
                args['start_label'] = max(1, LABEL_CAP + 1 - max(len(labs), 1)
                                          - rng.randint(0, 2))
        elif name in ('keep_label', 'keep_labels', 'remove_label',
                      'remove_labels'):
            args['labels'] = self._pick_labels(rng, a, st,
                                               many=name.endswith('s'))
            args['relabel'] = relabel
        elif name == 'remove_border_labels':
            lim = min(a.M.shape) / 2
            r = rng.random()
            if r < 0.25 and 'border0' not in cfg['avoid']:
                bw = 0
            elif r < 0.92:
                bw = rng.randint(1, max(1, int(np.ceil(lim)) - 1))
            else:
                bw = int(np.ceil(lim)) + rng.randint(0, 2)
            args = {'border_width': bw, 'partial_overlap': rng.chance(0.5),
                    'relabel': relabel}
        elif name == 'remove_masked_labels':
            shape = a.M.shape
            if rng.chance(st.cfg['reject_rate']):
                shape = (shape[0] + 1, shape[1])
            p = rng.pick([0.0, 0.1, 0.3, 0.6, 1.0])
            g = rng.np()
            mask = g.random(shape) < p
            menc = enc(mask)
            last = getattr(st, 'last_mask', None)
            if last is not None and tuple(last['shape']) == tuple(shape) \
                    and rng.chance(0.5):
                menc = last          # the caller uses its mask again
            st.last_mask = menc
            args = {'mask': menc, 'partial_overlap': rng.chance(0.5),
                    'relabel': relabel}
        elif name == 'set_data' and rng.chance(0.3):
            # the caller edits the array the image holds in place (a block
            # gets another label, a label disappears) and assigns the very
            # same array object again
            new = a.M.copy()
            ny, nx = new.shape
            y0, x0 = rng.randrange(ny), rng.randrange(nx)
            lab = rng.pick([0, int(new.max()) + 1,
                            int(rng.pick(list(_labels(new)) or [1]))])
            if lab <= LABEL_CAP:
                new[y0:y0 + rng.randint(1, 4), x0:x0 + rng.randint(1, 4)] = lab
            labs = list(_labels(new))
            if labs and rng.chance(0.4):
                new[new == int(rng.pick(labs))] = 0
            args = {'value': enc(new), 'inplace': True}
        elif name == 'set_data':
            r = rng.random()
            if r < 0.8:
                new = scenes.label_array(rng, dtype=rng.pick(
                    [str(a.M.dtype), None]))
            elif r < 0.9:
                new = scenes.label_array(rng).astype(float)
            else:
                new = scenes.label_array(rng, dtype='int16')
                new[0, 0] = -3
            args = {'value': enc(new)}
        return {'op': 'mut', 'actor': k, 'name': name, 'args': args,
                'repr': rng.pick(['plain', 'plain', 'array', 'tuple',
                                  'npint', 'smallint'])}

    def _gen_query(self, rng, st, k):
        a = st.actors[k]
        name = rng.wpick(['get_index', 'get_indices', 'get_area', 'get_areas',
                          'check_labels', 'make_source_mask', 'make_cmap',
                          'patches_regions', 'segment_methods', 'bad_slice'],
                         [3, 3, 3, 3, 3, 3, 2, 0.4, 1, 1])
        q = {'op': 'query', 'actor': k, 'name': name}
        if name in ('get_index', 'get_area'):
            q['labels'] = self._pick_labels(rng, a, st, many=False)
        elif name in ('get_indices', 'get_areas', 'check_labels'):
            q['labels'] = self._pick_labels(rng, a, st, many=True,
                                            allow_empty=False)
        elif name == 'make_source_mask':
            q['size'] = rng.pick([None, 1, 3, [1, 3], 'cross', 'disk'])
        else:
            q['seed'] = rng.randint(0, 5)
        return q

    # ------------------------------------------------------------------
    # reference model: documented set-theoretic effect on a numpy array
    # ------------------------------------------------------------------
    @staticmethod
    def _valid_labels(M, labels):
        labs = set(int(x) for x in _labels(M))
        arr = np.atleast_1d(labels)
        return all((int(x) > 0 and int(x) in labs) for x in arr)

    def _model_apply(self, a, name, args):
        """Return ('ok', newM, labelmap|None) or ('reject', why).

        labelmap: dict old->new when the operation is a relabelling of
        surviving labels (used for the deblend bookkeeping), else None.
        """
        M = a.M
        info = np.iinfo(M.dtype)
        relabel = bool(args.get('relabel', False))

        def finish(N, fmap):
            if relabel:
                N2, m2 = _consecutive(N)
                fmap = {o: m2.get(n, 0) for o, n in fmap.items()}
                N = N2
            return ('ok', N.astype(M.dtype), fmap)

        ident = {int(l): int(l) for l in _labels(M)}
        if name in ('reassign_label', 'reassign_labels'):
            labels = args['labels']
            if not self._valid_labels(M, labels):
                return ('reject', 'invalid label')
            new = args['new_label']
            if new < 0:
                return ('reject', 'negative new_label')
            if new > info.max:
                return ('reject', 'new_label outside dtype')
            N = M.copy()
            sel = np.isin(M, np.atleast_1d(labels))
            N[sel] = new
            fmap = dict(ident)
            for l in np.atleast_1d(labels):
                fmap[int(l)] = int(new)
            return finish(N, fmap)
        if name == 'relabel_consecutive':
            s = args['start_label']
            labs = _labels(M)
            if len(labs) == 0:
                return ('ok', M.copy(), ident)   # warning, nothing happens
            if s <= 0:
                return ('reject', 'start_label <= 0')
            if s + len(labs) - 1 > info.max:
                return ('reject', 'labels outside dtype')
            N, m = _consecutive(M, s)
            return ('ok', N.astype(M.dtype), m)
        if name in ('keep_label', 'keep_labels'):
            labels = args['labels']
            if not self._valid_labels(M, labels):
                return ('reject', 'invalid label')
            N = M.copy()
            N[~np.isin(M, np.atleast_1d(labels))] = 0
            keep = set(int(x) for x in np.atleast_1d(labels))
            fmap = {o: (o if o in keep else 0) for o in ident}
            return finish(N, fmap)
        if name in ('remove_label', 'remove_labels'):
            labels = args['labels']
            if not self._valid_labels(M, labels):
                return ('reject', 'invalid label')
            N = M.copy()
            N[np.isin(M, np.atleast_1d(labels))] = 0
            rem = set(int(x) for x in np.atleast_1d(labels))
            fmap = {o: (0 if o in rem else o) for o in ident}
            return finish(N, fmap)
        if name in ('remove_border_labels', 'remove_masked_labels'):
            if name == 'remove_border_labels':
                bw = args['border_width']
                if bw >= min(M.shape) / 2:
                    return ('reject', 'border too wide')
                mask = np.zeros(M.shape, bool)
                if bw > 0:
                    mask[:bw, :] = True
                    mask[M.shape[0] - bw:, :] = True
                    mask[:, :bw] = True
                    mask[:, M.shape[1] - bw:] = True
            else:
                mask = dec(args['mask']).astype(bool)
                if mask.shape != M.shape:
                    return ('reject', 'mask shape')
            inside = set(int(x) for x in _labels(M[mask]))
            if not args['partial_overlap']:
                outside = set(int(x) for x in _labels(M[~mask]))
                inside -= outside
            N = M.copy()
            if inside:
                N[np.isin(M, list(inside))] = 0
            fmap = {o: (0 if o in inside else o) for o in ident}
            return finish(N, fmap)
        if name == 'set_data':
            v = dec(args['value'])
            if v.dtype.kind not in 'iu':
                return ('reject', 'non-integer data')
            if v.min() < 0:
                return ('reject', 'negative data')
            return ('ok', v.copy(), 'reset')
        raise Inapplicable(name)

    # ------------------------------------------------------------------
    def step(self, st, op):
        k = op.get('actor', 0)
        if k >= len(st.actors):
            raise Inapplicable('no such actor')
        a = st.actors[k]
        kind = op['op']
        if kind == 'mut':
            self._step_mut(st, a, op)
        elif kind == 'read':
            self._step_read(st, a, op['attrs'])
        elif kind == 'query':
            self._step_query(st, a, op)
        elif kind == 'copy':
            c = call(a.obj.copy)
            if isinstance(c, Raised):
                raise Violation('raises', 'copy', repr(c))
            st.actors.append(_Actor(c, a.M.copy(),
                                    None if a.dmap is None else
                                    {p: list(v) for p, v in a.dmap.items()}))
            st.stats.probe('copy')
        elif kind == 'slice':
            ys, xs = op['ys'], op['xs']
            if ys[1] > a.M.shape[0] or xs[1] > a.M.shape[1]:
                raise Inapplicable('slice outside')
            c = call(lambda: a.obj[ys[0]:ys[1], xs[0]:xs[1]])
            if isinstance(c, Raised):
                raise Violation('raises', 'slice', repr(c))
            st.actors.append(_Actor(c, a.M[ys[0]:ys[1], xs[0]:xs[1]].copy(),
                                    {}))
            st.stats.probe('slice')
        else:
            raise Inapplicable(kind)
        # storage invariant for every member of the family, after every step
        for j, b in enumerate(st.actors):
            d = b.obj.data
            if d.shape != b.M.shape or not np.array_equal(d, b.M):
                raise Violation('model', 'data',
                                f'actor {j}: array differs from the '
                                f'documented effect after {op_short(op)}')
            if d.dtype != b.M.dtype:
                raise Violation('model', 'dtype',
                                f'actor {j}: {d.dtype} != {b.M.dtype} after '
                                f'{op_short(op)}')
        st.trace.add('st', [digest(b.obj.data) for b in st.actors])

    def _cached(self, a):
        names = set(a.obj._lazyproperties)
        return sorted(n for n in a.obj.__dict__ if n in names)

    def _step_mut(self, st, a, op):
        name, args = op['name'], op['args']
        verdict = self._model_apply(a, name, args)
        cached = self._cached(a)
        obj = a.obj
        kw = {k: (dec(v) if isinstance(v, dict) else v)
              for k, v in args.items()}
        if name in ('reassign_label', 'keep_label', 'remove_label'):
            lab = kw.pop('labels')
            if isinstance(lab, list):
                if len(lab) != 1:
                    raise Inapplicable('scalar label expected')
                lab = lab[0]
            kw['label'] = lab
        # the same label numbers in other argument representations
        rep = op.get('repr', 'plain')
        for kname in ('labels', 'label', 'new_label', 'start_label',
                      'border_width'):
            if kname in kw and rep != 'plain':
                v = kw[kname]
                if isinstance(v, list):
                    if rep == 'array':
                        kw[kname] = np.array(v, dtype=int) if v else v
                    elif rep == 'tuple':
                        kw[kname] = tuple(v)
                    elif rep == 'npint':
                        kw[kname] = [np.int64(x) for x in v]
                    elif rep == 'smallint' and v and max(v) < 127 and \
                            min(v) >= 0:
                        kw[kname] = np.array(v, dtype=np.uint8)
                elif isinstance(v, int) and not isinstance(v, bool):
                    if rep in ('npint', 'array'):
                        kw[kname] = np.int64(v)
                    elif rep == 'smallint' and 0 <= v < 127:
                        kw[kname] = np.uint8(v)
        mask_obj = None
        if name == 'remove_masked_labels' and isinstance(kw.get('mask'),
                                                         np.ndarray):
            # one mask *object* per distinct mask content: a caller that
            # uses its mask twice passes the same array twice
            key = args['mask']['__npy__']
            store = st.__dict__.setdefault('mask_store', {})
            if key not in store:
                store[key] = kw['mask']
            else:
                st.stats.probe('same_mask_object_reused')
            mask_obj = store[key]
            mask_before = mask_obj.copy()
            kw['mask'] = mask_obj
        before = obj.data.copy()
        if name == 'set_data':
            val, cur = kw['value'], obj.data
            inplace = bool(
                args.get('inplace') and verdict[0] == 'ok'
                and val.shape == cur.shape and val.dtype == cur.dtype
                and cur.flags.writeable
                and not any(b is not a and np.shares_memory(b.obj.data, cur)
                            for b in st.actors))
            if inplace:
                st.stats.probe('set_data_same_object_edited_in_place')

            def fn():
                if inplace:
                    cur[...] = val
                    obj.data = cur
                else:
                    obj.data = val.copy()
        else:
            def fn():
                return getattr(obj, name)(**kw)
        out = call(fn)
        if mask_obj is not None and not np.array_equal(mask_obj,
                                                       mask_before):
            raise Violation('input_modified', 'mask',
                            f'{op_short(op)} changed the mask array it was '
                            'given')
        st.nmut += 1
        st.stats.sig(f'{",".join(cached)}|{name}|{args.get("relabel")}')
        if len(cached) >= 3:
            st.stats.probe('mutation_with_ge3_cached')
        if verdict[0] == 'reject':
            st.stats.fault('reject')
            if isinstance(out, Raised):
                if not np.array_equal(obj.data, before):
                    st.stats.probe('reject_changed_array')
            else:
                st.stats.probe('reject_accepted')
            # a rejected call has no documented effect: resynchronise
            a.M = obj.data.copy()
            a.dmap = None
            return
        _, N, fmap = verdict
        if isinstance(out, Raised):
            raise Violation('raises', name,
                            f'{op_short(op)} raised {out!r} on an argument '
                            f'the API documents as valid')
        if args.get('relabel') and name != 'set_data':
            labs = _labels(N)
            assert list(labs) == list(range(1, len(labs) + 1))
        if name == 'remove_border_labels' and args['border_width'] == 0:
            st.stats.probe('zero_border_width')
        if 'labels' in args and isinstance(args['labels'], list) and not \
                args['labels']:
            st.stats.probe('empty_label_set')
        a.M = N
        # deblend bookkeeping model
        if fmap == 'reset':
            a.dmap = {}
        elif a.dmap is not None:
            vals = [v for v in fmap.values() if v != 0]
            bij = (len(vals) == len(fmap) and len(set(vals)) == len(vals))
            if bij:
                a.dmap = {p: [fmap.get(c, c) for c in kids]
                          for p, kids in a.dmap.items()}
                if a.dmap:
                    st.stats.probe('bijective_relabel_with_deblend_map')
            else:
                a.dmap = None if a.dmap else {}

    # ------------------------------------------------------------------
    def _fresh(self, st, a):
        from photutils.segmentation import SegmentationImage
        return SegmentationImage(a.M.copy())

    def _get(self, st, obj, attr):
        if attr == 'str':
            return call(lambda: str(obj))
        return self._with_flags(st, lambda: call(getattr, obj, attr))

    def _step_read(self, st, a, attrs):
        fresh = None
        for attr in attrs:
            was_cached = attr in a.obj.__dict__
            val = self._get(st, a.obj, attr)
            st.trace.add('read', attr, digest(val))
            if was_cached:
                st.stats.probe('read_cached')
            if attr.startswith('deblended_labels'):
                self._check_bookkeeping(st, a, attr, val)
                continue
            if fresh is None:
                fresh = self._fresh(st, a)
            exp = self._get(st, fresh, attr)
            if isinstance(val, Raised) and not isinstance(exp, Raised):
                raise Violation('raises', attr, f'{val!r}; a fresh image '
                                'on the same array does not raise')
            d = diff(val, exp)
            if d:
                raise Violation('coherence', attr,
                                f'differs from a fresh SegmentationImage on '
                                f'the same array: {d}')
            self._check_definition(st, a, attr, val)

    def _check_definition(self, st, a, attr, val):
        """Independent definitions (do not rely on the fresh object)."""
        M = a.M
        labs = _labels(M)
        if isinstance(val, Raised):
            raise Violation('raises', attr, repr(val))
        if attr == 'labels':
            if list(val) != list(labs) or val.dtype != M.dtype:
                raise Violation('definition', attr, f'{val!r} vs {labs!r}')
        elif attr == 'nlabels':
            if val != len(labs):
                raise Violation('definition', attr, f'{val} vs {len(labs)}')
        elif attr == 'max_label':
            if val != (labs.max() if len(labs) else 0):
                raise Violation('definition', attr, str(val))
        elif attr == 'areas':
            exp = [int(np.count_nonzero(M == l)) for l in labs]
            if list(val) != exp:
                raise Violation('definition', attr, f'{list(val)} vs {exp}')
        elif attr in ('slices', 'bbox'):
            exp = []
            for l in labs:
                ys, xs = np.nonzero(M == l)
                exp.append((int(ys.min()), int(ys.max()) + 1, int(xs.min()),
                            int(xs.max()) + 1))
            if attr == 'slices':
                got = [(s[0].start, s[0].stop, s[1].start, s[1].stop)
                       for s in val]
            else:
                got = [(b.iymin, b.iymax, b.ixmin, b.ixmax) for b in val]
            if got != exp:
                raise Violation('definition', attr, f'{got} vs {exp}')
        elif attr == 'missing_labels':
            mx = labs.max() if len(labs) else 0
            exp = sorted(set(range(1, int(mx) + 1)) - set(int(x)
                                                           for x in labs))
            if [int(x) for x in val] != exp:
                raise Violation('definition', attr, f'{list(val)} vs {exp}')
        elif attr == 'is_consecutive':
            exp = len(labs) > 0 and list(labs) == list(range(1,
                                                             len(labs) + 1))
            if bool(val) != exp:
                raise Violation('definition', attr, f'{val} vs {exp}')
        elif attr == 'background_area':
            if val != int(np.count_nonzero(M == 0)):
                raise Violation('definition', attr, str(val))
        elif attr == 'shape':
            if tuple(val) != M.shape:
                raise Violation('definition', attr, str(val))
        elif attr == 'polygons':
            if len(val) != len(labs):
                raise Violation('definition', 'polygons',
                                f'{len(val)} polygon entries for '
                                f'{len(labs)} labels')
            for l, poly in zip(labs, val):
                area = int(np.count_nonzero(M == l))
                if abs(poly.area - area) > 1e-9:
                    raise Violation('definition', 'polygons',
                                    f'polygon of label {l} has area '
                                    f'{poly.area}, segment has {area} px')
                ys, xs = np.nonzero(M == l)
                b = poly.bounds
                expb = (xs.min() - 0.5, ys.min() - 0.5, xs.max() + 0.5,
                        ys.max() + 0.5)
                if tuple(b) != expb:
                    raise Violation('definition', 'polygons',
                                    f'polygon bounds of label {l}: {b} vs '
                                    f'{expb}')
            if any(len(np.unique(_cc(M == l))) > 2 for l in labs):
                st.stats.probe('polygons_with_disconnected_label')
        elif attr == 'segments':
            if len(val) != len(labs):
                raise Violation('definition', 'segments',
                                f'{len(val)} segments for {len(labs)} labels')
            for l, seg in zip(labs, val):
                if seg.label != l or seg.area != np.count_nonzero(M == l):
                    raise Violation('definition', 'segments',
                                    f'segment for label {l}: label '
                                    f'{seg.label} area {seg.area}')
                cut = M[seg.slices].copy()
                cut[cut != l] = 0
                if not np.array_equal(seg.data, cut):
                    raise Violation('definition', 'segments',
                                    f'segment data of label {l}')
            if any(len(np.unique(_cc(M == l))) > 2 for l in labs):
                st.stats.probe('segments_with_disconnected_label')
        elif attr == 'data_ma':
            if not (np.array_equal(np.ma.getmaskarray(val), M == 0)
                    and np.array_equal(np.ma.getdata(val), M)):
                raise Violation('definition', attr, 'mask/data mismatch')

    def _check_bookkeeping(self, st, a, attr, val):
        if isinstance(val, Raised):
            raise Violation('raises', attr, repr(val))
        obj = a.obj
        inv = {int(k): [int(x) for x in np.atleast_1d(v)]
               for k, v in obj.deblended_labels_inverse_map.items()}
        fwd = {int(k): int(v) for k, v in obj.deblended_labels_map.items()}
        dl = [int(x) for x in obj.deblended_labels]
        present = set(int(x) for x in _labels(a.M))
        named = [c for kids in inv.values() for c in kids]
        absent = [c for c in named if c not in present]
        if absent:
            raise Violation('bookkeeping', 'absent_label',
                            f'deblend map {inv} names labels {absent} that '
                            f'are not in the array (labels {sorted(present)})')
        if sorted(set(named)) != sorted(set(dl)) or dl != sorted(dl):
            raise Violation('bookkeeping', 'deblended_labels',
                            f'{dl} vs union of {inv}')
        exp_fwd = {}
        for p, kids in inv.items():
            for c in kids:
                exp_fwd.setdefault(c, p)
        if set(fwd) != set(exp_fwd) or any(
                fwd[c] not in [p for p, ks in inv.items() if c in ks]
                for c in fwd):
            raise Violation('bookkeeping', 'maps_inconsistent',
                            f'{fwd} vs {inv}')
        if a.dmap is not None:
            exp = {p: list(k) for p, k in a.dmap.items() if k}
            got = {p: list(k) for p, k in inv.items() if k}
            if exp != got:
                raise Violation('bookkeeping', 'map_content',
                                f'deblend map is {got}, expected {exp} '
                                '(never-deblended / reassigned image must '
                                'have empty maps; bijective relabels must '
                                'carry every child)')
        if inv:
            st.stats.probe('bookkeeping_checked_nonempty')

    def _step_query(self, st, a, op):
        name = op['name']
        obj = a.obj
        M = a.M
        labs = [int(x) for x in _labels(M)]
        if name in ('get_index', 'get_indices', 'get_area', 'get_areas',
                    'check_labels'):
            labels = op['labels']
            if name in ('get_index', 'get_area') and isinstance(labels, list):
                if len(labels) != 1:
                    raise Inapplicable('scalar')
                labels = labels[0]
            valid = self._valid_labels(M, labels) and np.size(labels) > 0
            out = call(getattr(obj, name), labels)
            st.trace.add('query', name, digest(out))
            if not valid:
                st.stats.fault('reject')
                if not isinstance(out, Raised):
                    st.stats.probe('reject_accepted')
                return
            if isinstance(out, Raised):
                raise Violation('raises', name, f'{name}({labels}) {out!r}')
            arr = np.atleast_1d(labels)
            if name in ('get_index', 'get_indices'):
                exp = [labs.index(int(x)) for x in arr]
                if [int(x) for x in np.atleast_1d(out)] != exp:
                    raise Violation('definition', name, f'{out} vs {exp}')
            elif name in ('get_area', 'get_areas'):
                exp = [int(np.count_nonzero(M == int(x))) for x in arr]
                if [int(x) for x in np.atleast_1d(out)] != exp:
                    raise Violation('definition', name, f'{out} vs {exp}')
        elif name == 'make_source_mask':
            size = op.get('size')
            if isinstance(size, list):
                size = tuple(size)
            if size in ('cross', 'disk'):
                fp = (np.array([[0, 1, 0], [1, 1, 1], [0, 1, 0]])
                      if size == 'cross' else
                      np.array([[0, 1, 1, 1, 0]] + [[1] * 5] * 3
                               + [[0, 1, 1, 1, 0]]))
                from scipy.ndimage import binary_dilation
                out = call(obj.make_source_mask, footprint=fp)
                st.trace.add('query', name, digest(out))
                exp = binary_dilation(M != 0, structure=fp.astype(bool))
                if isinstance(out, Raised) or not np.array_equal(out, exp):
                    raise Violation('definition', name,
                                    f'footprint {size}: not the dilation of '
                                    f'(data != 0)')
                return
            out = call(obj.make_source_mask, size=size)
            exp = call(self._fresh(st, a).make_source_mask, size=size)
            st.trace.add('query', name, digest(out))
            d = diff(out, exp)
            if d:
                raise Violation('coherence', name, d)
            if size is None and not isinstance(out, Raised) and not \
                    np.array_equal(out, M != 0):
                raise Violation('definition', name, 'mask != (data != 0)')
        elif name == 'patches_regions':
            # one patch / region per connected region of every label
            nreg = sum(int(_cc(M == l).max()) for l in labs)
            for meth in ('to_patches', 'to_regions'):
                out = self._with_flags(st, lambda: call(getattr(obj, meth)))
                if isinstance(out, Raised):
                    raise Violation('raises', meth, repr(out))
                if len(out) != nreg:
                    raise Violation('definition', meth,
                                    f'{len(out)} items for {nreg} connected '
                                    f'regions of {len(labs)} labels')
        elif name == 'segment_methods':
            segs = self._with_flags(st, lambda: call(getattr, obj,
                                                     'segments'))
            if isinstance(segs, Raised):
                raise Violation('raises', 'segments', repr(segs))
            img = np.arange(M.size, dtype=float).reshape(M.shape)
            for l, seg in zip(labs, segs):
                cut = call(seg.make_cutout, img, masked_array=True)
                if isinstance(cut, Raised):
                    raise Violation('raises', 'Segment.make_cutout',
                                    repr(cut))
                exp_mask = M[seg.slices] != l
                if not (np.array_equal(np.ma.getmaskarray(cut), exp_mask)
                        and np.array_equal(np.ma.getdata(cut),
                                           img[seg.slices])):
                    raise Violation('definition', 'Segment.make_cutout',
                                    f'label {l}')
                dm = call(getattr, seg, 'data_ma')
                if isinstance(dm, Raised) or not np.array_equal(
                        np.ma.getmaskarray(dm), exp_mask):
                    raise Violation('definition', 'Segment.data_ma',
                                    f'label {l}')
        elif name == 'bad_slice':
            out = call(lambda: obj[1])
            st.stats.fault('reject')
            if not isinstance(out, Raised):
                raise Violation('reject', 'getitem', 'obj[1] accepted')
        elif name == 'make_cmap':
            out = call(obj.make_cmap, seed=op['seed'])
            exp = call(self._fresh(st, a).make_cmap, seed=op['seed'])
            st.trace.add('query', name, digest(out))
            d = diff(out, exp)
            if d:
                raise Violation('coherence', name, d)
        else:
            raise Inapplicable(name)

    def finish(self, st):
        # final full coherence sweep over the whole family
        for a in st.actors:
            self._step_read(st, a, [x for x in READ_ATTRS])

    def nontrivial(self, plan, st):
        return st.nmut >= 2

    # ------------------------------------------------------------------
    def simpler_ops(self, op):
        if op.get('op') == 'read' and len(op['attrs']) > 1:
            for x in op['attrs']:
                yield {**op, 'attrs': [x]}
        if op.get('op') == 'mut':
            args = op['args']
            if args.get('relabel'):
                yield {**op, 'args': {**args, 'relabel': False}}
            if isinstance(args.get('labels'), list) and len(
                    args['labels']) > 1:
                for x in args['labels']:
                    yield {**op, 'args': {**args, 'labels': [x]}}
            if args.get('partial_overlap'):
                yield {**op, 'args': {**args, 'partial_overlap': False}}

    def simpler_scenes(self, plan):
        sc = plan['scene']
        if 'arr' not in sc:
            return
        arr = dec(sc['arr'])
        if plan['cfg'].get('fast_path_off'):
            p = dict(plan)
            p['cfg'] = {**plan['cfg'], 'fast_path_off': False}
            yield p
        if arr.dtype != np.int64:
            p = dict(plan)
            p['scene'] = {'arr': enc(arr.astype(np.int64))}
            yield p
        for lab in _labels(arr)[::-1]:
            a2 = arr.copy()
            a2[a2 == lab] = 0
            p = dict(plan)
            p['scene'] = {'arr': enc(a2)}
            yield p
        ny, nx = arr.shape
        if ny > 3:
            for sl in (slice(0, ny - 1), slice(1, ny)):
                p = dict(plan)
                p['scene'] = {'arr': enc(arr[sl, :].copy())}
                yield p
        if nx > 3:
            for sl in (slice(0, nx - 1), slice(1, nx)):
                p = dict(plan)
                p['scene'] = {'arr': enc(arr[:, sl].copy())}
                yield p


def _cc(mask):
    from scipy.ndimage import label
    return label(mask, structure=np.ones((3, 3)))[0]


def op_short(op):
    o = {k: v for k, v in op.items() if k != 'args'}
    if 'args' in op:
        o['args'] = {k: ('<array>' if isinstance(v, dict) else v)
                     for k, v in op['args'].items()}
    return str(o)
