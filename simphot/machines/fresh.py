"""C09 - results never depend on access order or on earlier calls.

One skeleton, several actor families.  The object under test O is built from
configuration K; the run performs a seeded history of reads, assignments and
calls on O; every observation is compared with the answer of a *fresh*
object built from a new deep copy of K on which only that request is made.
"""

from __future__ import annotations

import copy as _copy

import numpy as np

from simphot import scenes
from simphot.compare import diff, digest, plain
from simphot.kernel import (Held, Inapplicable, Machine, Raised, Violation,
                            call, dec, enc)


class _St:
    pass


def _cmp(st, subject, val, exp, rtol=0.0, atol=0.0, what='', inv='order'):
    if getattr(st, 'held', None) is not None and not isinstance(
            val, Raised) and subject != 'normalization_value':
        st.held.add(subject, val)
    if isinstance(val, Raised):
        if isinstance(exp, Raised) and exp.type == val.type:
            st.stats.probe('raises_like_fresh')
            return
        raise Violation('raises', subject,
                        f'{what}: {val!r}; a fresh object answering the '
                        f'same request gives {_short(exp)}')
    if isinstance(exp, Raised):
        raise Violation(inv, subject,
                        f'{what}: value returned, but a fresh object raises '
                        f'{exp!r}')
    d = diff(val, exp, rtol, atol)
    if d:
        raise Violation(inv, subject, f'{what}: differs from a fresh '
                        f'object: {d}')


def _expect(st, fn):
    """Value a *fresh* object gives for the request.  For a seeded subset of
    observations (op['iso']) it is computed in a forked child that has seen
    nothing of this run - neither the object under test nor any decoy - so
    that state kept outside the instances (class attributes, module-level
    caches) cannot make both sides of the comparison wrong in the same way.
    """
    if not getattr(st, 'iso', False):
        return fn()
    import os
    import pickle
    r, w = os.pipe()
    pid = os.fork()
    if pid == 0:
        code = 0
        try:
            os.close(r)
            val = fn()
            try:
                blob = pickle.dumps(('ok', val), protocol=4)
            except Exception:  # noqa: BLE001 - unpicklable value
                blob = pickle.dumps(('unpicklable', None), protocol=4)
            with os.fdopen(w, 'wb') as fh:
                fh.write(blob)
        except BaseException:  # noqa: BLE001
            code = 3
        finally:
            os._exit(code)
    os.close(w)
    with os.fdopen(r, 'rb') as fh:
        blob = fh.read()
    os.waitpid(pid, 0)
    try:
        tag, val = pickle.loads(blob)
    except Exception:  # noqa: BLE001
        tag, val = 'failed', None
    if tag != 'ok':
        st.stats.probe('isolated_expectation_fallback')
        return fn()
    st.stats.probe('expectation_from_pristine_process')
    return val


def _perturbed(scene):
    """Scene with every float image scaled and shifted (for decoys)."""
    def f(v):
        if isinstance(v, dict) and '__npy__' in v:
            a = dec(v)
            if a.dtype.kind == 'f':
                return enc(a * 1.37 + 0.11)
            return v
        if isinstance(v, dict):
            return {k: f(x) for k, x in v.items()}
        if isinstance(v, list):
            return [f(x) for x in v]
        return v
    return f(scene)


def _short(v):
    s = repr(v)
    return s if len(s) < 200 else s[:200] + '...'


# ==========================================================================
# Background2D
# ==========================================================================
BKG_ATTRS = ['background', 'background_rms', 'background_mesh',
             'background_rms_mesh', 'background_median',
             'background_rms_median', 'npixels_mesh', 'npixels_map',
             'background_mesh_masked', 'background_rms_mesh_masked',
             'mesh_nmasked', 'repr']


class BackgroundFamily:
    name = 'background'
    max_ops = 12
    real = ['Background2D (lazy meshes, selective filter, interpolators)']

    def make_cfg(self, rng, avoid):
        return {
            'box': rng.pick([[5, 5], [7, 6], [10, 10], [4, 9], 'image', 8,
                             [5, 5], [7, 6], 1]),
            'mask': rng.chance(0.4), 'coverage': rng.chance(0.3),
            'exclude_percentile': rng.pick([10.0, 10.0, 50.0, 100.0]),
            'filter_size': rng.pick([1, 3, 3, [3, 5], [1, 3]]),
            'filter_threshold': rng.pick(['none', 'none', 'below', 'mid',
                                          'mid', 'above']),
            'edge_method': rng.pick(['pad', 'pad', 'crop']),
            'interp': rng.pick(['zoom', 'zoom', 'idw']),
            'bkg': rng.pick(['sextractor', 'median', 'mean', 'mmm',
                             'biweight']),
            'rms': rng.pick(['std', 'madstd', 'biweight']),
            'sigma_clip': rng.chance(0.8),
            'unit': rng.chance(0.25), 'fill_value': rng.pick([0.0, -1.5]),
            'int_data': rng.chance(0.15), 'nan': rng.chance(0.3),
            'f32': rng.chance(0.2),
        }

    def make_scene(self, rng, cfg):
        ny, nx = rng.randint(16, 40), rng.randint(16, 40)
        g = rng.np()
        yy, xx = np.mgrid[0:ny, 0:nx]
        data = (10 + 0.2 * xx * rng.uniform(-1, 1) + 0.1 * yy
                + g.normal(0, 1.0, (ny, nx)))
        data += scenes.gaussians((ny, nx), [
            (rng.uniform(0, nx), rng.uniform(0, ny), rng.uniform(20, 100),
             1.5, 1.5, 0) for _ in range(rng.randint(0, 4))])
        if cfg['int_data']:
            data = np.round(data * 10).astype(np.int64)
        elif cfg['nan']:
            for _ in range(rng.randint(1, 4)):
                data[rng.randrange(ny), rng.randrange(nx)] = np.nan
        if cfg.get('f32') and not cfg['int_data']:
            data = (data + 1000.0).astype(np.float32)    # on a pedestal
        mask = g.random((ny, nx)) < 0.1
        if rng.chance(0.3):
            mask[: ny // 3, : nx // 3] = True     # a fully masked box
        cov = np.zeros((ny, nx), bool)
        cov[:, : rng.randint(1, nx // 3)] = True
        fin = data[np.isfinite(data)] if data.dtype.kind == 'f' else data
        thr = {'none': None, 'below': float(fin.min()) - 10.0,
               'mid': float(np.median(fin)),
               'above': float(fin.max()) + 10.0}[cfg['filter_threshold']]
        return {'data': enc(data), 'mask': enc(mask), 'coverage': enc(cov),
                'threshold': thr}

    def build(self, cfg, sc, shared=None):
        import astropy.units as u
        from astropy.stats import SigmaClip
        from photutils.background import (Background2D, BkgIDWInterpolator,
                                          BkgZoomInterpolator,
                                          BiweightLocationBackground,
                                          BiweightScaleBackgroundRMS,
                                          MADStdBackgroundRMS, MeanBackground,
                                          MedianBackground, MMMBackground,
                                          SExtractorBackground,
                                          StdBackgroundRMS)
        data = dec(sc['data']).copy()
        if cfg['unit']:
            data = data * u.Jy
        box = cfg['box']
        if box == 'image':
            box = list(data.shape)
        bkg = {'sextractor': SExtractorBackground, 'median': MedianBackground,
               'mean': MeanBackground, 'mmm': MMMBackground,
               'biweight': BiweightLocationBackground}[cfg['bkg']]()
        rms = {'std': StdBackgroundRMS, 'madstd': MADStdBackgroundRMS,
               'biweight': BiweightScaleBackgroundRMS}[cfg['rms']]()
        kw = dict(
            mask=dec(sc['mask']).copy() if cfg['mask'] else None,
            coverage_mask=dec(sc['coverage']).copy() if cfg['coverage']
            else None,
            fill_value=cfg['fill_value'],
            exclude_percentile=cfg['exclude_percentile'],
            filter_size=cfg['filter_size'], filter_threshold=sc['threshold'],
            edge_method=cfg['edge_method'],
            sigma_clip=SigmaClip(sigma=3.0, maxiters=10) if cfg['sigma_clip']
            else None,
            bkg_estimator=bkg, bkgrms_estimator=rms,
            interpolator=(BkgZoomInterpolator() if cfg['interp'] == 'zoom'
                          else BkgIDWInterpolator()))
        if shared is not None:
            # helper instances handed to several Background2D objects
            for k in ('interpolator', 'bkg_estimator', 'bkgrms_estimator'):
                kw[k] = shared.setdefault(k, kw[k])
        return Background2D(data, box, **kw)

    def start(self, st, plan):
        st.shared = {}
        st.obj = call(self.build, st.cfg, st.scene, st.shared)
        st.dead = isinstance(st.obj, Raised)
        if st.dead:
            st.stats.probe('constructor_rejected_config')
        st.seen = []

    def next_op(self, rng, st):
        if st.dead:
            return None
        w = [3, 3, 4, 4, 2, 2, 1, 1, 1, 1, 1, 1]
        return {'op': 'read', 'attr': rng.wpick(BKG_ATTRS, w)}

    @staticmethod
    def _get(obj, attr):
        if attr == 'repr':
            return call(lambda: (repr(obj), str(obj)))
        return call(getattr, obj, attr)

    def step(self, st, op):
        if st.dead:
            raise Inapplicable('dead')
        attr = op['attr']
        val = self._get(st.obj, attr)
        st.trace.add('read', attr, digest(val))
        exp = _expect(st, lambda: self._get(self.build(st.cfg, st.scene),
                                            attr))
        # null test: two fresh objects must agree
        if diff(exp, self._get(self.build(st.cfg, st.scene), attr)):
            st.stats.probe('nondeterministic_skips')
            return
        _cmp(st, attr, val, exp, what=f'read {attr} after {st.seen}')
        if st.seen:
            st.stats.sig(f'bkg|{st.seen[-1]}>{attr}|'
                         f'{st.cfg["filter_threshold"]}|'
                         f'{st.cfg["filter_size"]}')
        if (attr in ('background_mesh', 'background', 'background_median',
                     'background_mesh_masked')
                and any(s.startswith('background_rms') for s in st.seen)
                and not any(s in ('background_mesh', 'background',
                                  'background_median',
                                  'background_mesh_masked')
                            for s in st.seen)
                and st.cfg['filter_threshold'] in ('mid', 'above')
                and st.cfg['filter_size'] != 1):
            st.stats.probe('rms_mesh_before_bkg_mesh_with_threshold')
        st.seen.append(attr)

    def decoy(self, st):
        # another Background2D built with the *same* interpolator and
        # estimator instances (they are constructor arguments a caller may
        # well share), other data, another box layout and mask
        cfg2 = dict(st.cfg)
        cfg2['box'] = [[6, 9], [9, 5], [4, 4], 7][len(st.seen) % 4]
        cfg2['mask'] = not st.cfg['mask']
        o = call(self.build, cfg2, _perturbed(st.scene), st.shared)
        if not isinstance(o, Raised):
            for a in ('background_rms', 'background', 'background_median'):
                call(getattr, o, a)

    def simpler_cfgs(self, cfg):
        for k, v in (('mask', False), ('coverage', False), ('unit', False),
                     ('nan', False), ('int_data', False),
                     ('interp', 'zoom'), ('bkg', 'median'), ('rms', 'std'),
                     ('edge_method', 'pad'), ('exclude_percentile', 10.0)):
            if cfg.get(k) != v:
                yield {**cfg, k: v}


# ==========================================================================
# profiles
# ==========================================================================
PROF_ARRAYS = ['radius', 'profile', 'profile_error', 'area', 'data_profile',
               'data_radius']
PROF_RTOL = 0.0


class ProfileFamily:
    name = 'profile'
    max_ops = 14
    real = ['RadialProfile', 'CurveOfGrowth', 'CircularAperture photometry']

    def make_cfg(self, rng, avoid):
        return {'cls': rng.pick(['radial', 'cog']),
                'error': rng.chance(0.6), 'mask': rng.chance(0.4),
                'method': rng.pick(['exact', 'center', 'subpixel']),
                'unit': rng.chance(0.25), 'nan': rng.chance(0.3),
                'signed': rng.chance(0.3), 'nan_error': rng.chance(0.25)}

    def make_scene(self, rng, cfg):
        n = rng.randint(15, 41)
        g = rng.np()
        data = scenes.gaussians((n, n), [(n / 2 + rng.uniform(-1, 1),
                                         n / 2 + rng.uniform(-1, 1),
                                         rng.uniform(10, 100), 2.5, 2.5, 0)])
        data += g.normal(0, 0.5, data.shape)
        if cfg['signed']:
            data -= 5.0
        if cfg['nan']:
            data[rng.randrange(n), rng.randrange(n)] = np.nan
        cen = rng.pick(['in', 'in', 'edge', 'out'])
        if cen == 'in':
            xy = [n / 2 + rng.uniform(-2, 2), n / 2 + rng.uniform(-2, 2)]
        elif cen == 'edge':
            xy = [rng.uniform(0, 2), n / 2]
        else:
            xy = [-3.0, n / 2]
        nr = rng.randint(3, 9)
        steps = [rng.uniform(0.5, 2.5) for _ in range(nr)]
        r0 = 0.0 if (cfg['cls'] == 'radial' and rng.chance(0.5)) \
            else rng.uniform(0.3, 2)
        radii = list(np.round(r0 + np.cumsum([0] + steps), 3))
        err = np.abs(g.normal(1, 0.1, data.shape)) + 0.1
        if cfg.get('nan_error'):
            err[rng.randrange(n), rng.randrange(n)] = np.nan
            err[n // 2, n // 2 + 1] = np.inf
        return {'data': enc(data), 'error': enc(err),
                'mask': enc(g.random(data.shape) < 0.05), 'xycen': xy,
                'radii': radii}

    def build(self, cfg, sc):
        import astropy.units as u
        from photutils.profiles import CurveOfGrowth, RadialProfile
        data = dec(sc['data']).copy()
        err = dec(sc['error']).copy() if cfg['error'] else None
        if cfg['unit']:
            data = data * u.Jy
            err = err * u.Jy if err is not None else None
        cls = RadialProfile if cfg['cls'] == 'radial' else CurveOfGrowth
        return cls(data, tuple(sc['xycen']), np.array(sc['radii']),
                   error=err,
                   mask=dec(sc['mask']).copy() if cfg['mask'] else None,
                   method=cfg['method'], subpixels=3)

    def start(self, st, plan):
        st.obj = call(self.build, st.cfg, st.scene)
        st.dead = isinstance(st.obj, Raised)
        st.norm_calls = []        # normalisation history so far
        st.gauss_frozen = None    # normalisation history at first gaussian read
        st.seen = []

    def next_op(self, rng, st):
        if st.dead:
            return None
        r = rng.random()
        if r < 0.5:
            attrs = list(PROF_ARRAYS) + ['apertures']
            if st.cfg['cls'] == 'radial':
                attrs += ['gaussian_fit', 'gaussian_profile',
                          'gaussian_fwhm']
            return {'op': 'read', 'attr': rng.pick(attrs)}
        if r < 0.75:
            return {'op': 'normalize',
                    'method': rng.pick(['max', 'sum', 'max', 'bogus'])}
        if r < 0.9:
            return {'op': 'unnormalize'}
        if st.cfg['cls'] == 'cog':
            rr = st.scene['radii']
            return {'op': 'ee', 'which': rng.pick(['ee_at_radius',
                                                   'radius_at_ee']),
                    'x': rng.uniform(rr[0], rr[-1])}
        return {'op': 'read', 'attr': 'normalization_value'}

    def _reference(self, st, history):
        """Fresh object, all arrays read first (the documented order), then
        the normalisation calls of ``history`` in order."""
        f = self.build(st.cfg, st.scene)
        for a in ('profile', 'profile_error', 'data_profile', 'area',
                  'radius'):
            call(getattr, f, a)
        for c in history:
            if c == 'un':
                call(f.unnormalize)
            else:
                call(f.normalize, c)
        return f

    @staticmethod
    def _read(obj, attr):
        v = call(getattr, obj, attr)
        if attr == 'gaussian_fit' and not isinstance(v, Raised):
            return {'amplitude': v.amplitude.value, 'mean': v.mean.value,
                    'stddev': v.stddev.value}
        if attr == 'apertures' and not isinstance(v, Raised):
            return [None if a is None else plain(a) for a in v]
        return v

    def step(self, st, op):
        if st.dead:
            raise Inapplicable('dead')
        o = st.obj
        kind = op['op']
        if kind == 'normalize':
            if op['method'] == 'bogus':
                out = call(o.normalize, 'bogus')
                st.stats.fault('reject')
                if not isinstance(out, Raised):
                    raise Violation('reject', 'normalize',
                                    'invalid method accepted')
                return
            if 'profile' not in o.__dict__:
                st.stats.probe('normalize_before_first_read')
            if 'data_profile' not in o.__dict__:
                st.stats.probe('normalize_before_data_profile')
            out = call(o.normalize, op['method'])
            if isinstance(out, Raised):
                ref = self._reference(st, st.norm_calls)
                exp = call(ref.normalize, op['method'])
                _cmp(st, 'normalize', out, exp, what='normalize')
                return
            st.norm_calls.append(op['method'])
            st.seen.append('N' + op['method'][0])
            return
        if kind == 'unnormalize':
            out = call(o.unnormalize)
            if isinstance(out, Raised):
                raise Violation('raises', 'unnormalize', repr(out))
            st.norm_calls.append('un')
            st.seen.append('U')
            # independent of the replayed reference: an unnormalized
            # profile is what a never-normalized fresh object reports
            nv = call(getattr, o, 'normalization_value')
            if isinstance(nv, Raised) or nv != 1.0:
                raise Violation('order', 'normalization_value',
                                f'{nv!r} after unnormalize (history '
                                f'{st.seen})')
            raw = self.build(st.cfg, st.scene)
            rp = self._read(raw, 'profile')
            rpv = np.asarray(getattr(rp, 'value', rp), dtype=float)
            if (isinstance(rp, Raised) or np.any(np.isinf(rpv))
                    or not np.any(np.isfinite(rpv))):
                # a bin without unmasked area gives an infinite profile
                # value and hence an infinite normalization: nothing can
                # be restored from that, and nothing is asserted
                st.stats.probe('infinite_profile_value')
                return
            for a in ('profile', 'profile_error', 'data_profile'):
                if a == 'data_profile' and st.cfg['cls'] != 'radial':
                    continue
                d = diff(self._read(o, a), self._read(raw, a), 1e-10, 0.0,
                         check_dtype=False)
                # unit representation may differ (dimensionless Quantity)
                if d and 'Quantity' not in d and 'unit' not in d:
                    raise Violation('order', a,
                                    f'after unnormalize (history {st.seen}) '
                                    f'{a} is not the never-normalized '
                                    f'value: {d}')
            return
        if kind == 'ee':
            fn = ('calc_ee_at_radius' if op['which'] == 'ee_at_radius'
                  else 'calc_radius_at_ee')
            ref = self._reference(st, st.norm_calls)
            x = op['x']
            if fn == 'calc_radius_at_ee':
                # pick an ee value inside the current profile range
                p = call(getattr, ref, 'profile')
                if isinstance(p, Raised):
                    return
                pv = np.asarray(getattr(p, 'value', p))
                fin = pv[np.isfinite(pv)]
                if len(fin) < 2:
                    return
                t = (x - st.scene['radii'][0]) / max(
                    st.scene['radii'][-1] - st.scene['radii'][0], 1e-9)
                x = float(fin.min() + t * (fin.max() - fin.min()))
            val = call(getattr(o, fn), x)
            exp = call(getattr(ref, fn), x)
            st.trace.add(fn, digest(val))
            _cmp(st, fn, val, exp, 1e-9, 1e-12, what=f'{fn}({x}) after '
                 f'{st.seen}')
            return
        attr = op['attr']
        history = st.norm_calls
        if attr.startswith('gaussian'):
            if st.gauss_frozen is None:
                st.gauss_frozen = list(st.norm_calls)
            history = st.gauss_frozen
        val = self._read(o, attr)
        st.trace.add('read', attr, digest(val))
        exp = _expect(st, lambda: self._read(self._reference(st, history),
                                             attr))
        rtol = PROF_RTOL if history else 0.0
        if attr.startswith('gaussian'):
            rtol = 1e-7
        _cmp(st, attr, val, exp, rtol, 0.0,
             what=f'read {attr} after {st.seen}')
        st.stats.sig(f'prof|{st.cfg["cls"]}|{"".join(st.seen[-3:])}>{attr}')
        if len([c for c in st.norm_calls if c != 'un']) >= 2:
            st.stats.probe('double_normalize')
        st.seen.append(attr[:6])

    def decoy(self, st):
        o = call(self.build, st.cfg, _perturbed(st.scene))
        if not isinstance(o, Raised):
            for a in ('profile', 'profile_error', 'area'):
                call(getattr, o, a)
            call(o.normalize, 'max')
            if st.cfg['cls'] == 'cog':
                call(o.calc_ee_at_radius, float(st.scene['radii'][1]))

    def simpler_cfgs(self, cfg):
        for k, v in (('mask', False), ('error', False), ('unit', False),
                     ('nan', False), ('signed', False), ('method', 'exact')):
            if cfg.get(k) != v:
                yield {**cfg, k: v}


# ==========================================================================
# pixel apertures
# ==========================================================================
APER_CLASSES = {
    'CircularAperture': ['r'],
    'CircularAnnulus': ['r_in', 'r_out'],
    'EllipticalAperture': ['a', 'b', 'theta'],
    'EllipticalAnnulus': ['a_in', 'a_out', 'b_out', 'b_in', 'theta'],
    'RectangularAperture': ['w', 'h', 'theta'],
    'RectangularAnnulus': ['w_in', 'w_out', 'h_out', 'h_in', 'theta'],
}


class ApertureFamily:
    name = 'aperture'
    max_ops = 16
    real = ['six PixelAperture classes, attribute descriptors, to_mask, '
            'do_photometry, area_overlap']

    def make_cfg(self, rng, avoid):
        return {'cls': rng.pick(list(APER_CLASSES)),
                'scalar': rng.chance(0.4)}

    def make_scene(self, rng, cfg):
        g = rng.np()
        data = g.normal(5, 1, (24, 26))
        n = 1 if cfg['scalar'] else rng.randint(2, 4)
        pos = [[rng.uniform(2, 23), rng.uniform(2, 21)] for _ in range(n)]
        params = self._rand_params(rng, cfg['cls'])
        return {'data': enc(data), 'positions': pos[0] if cfg['scalar']
                else pos, 'params': params}

    @staticmethod
    def _rand_params(rng, cls):
        p = {}
        names = APER_CLASSES[cls]
        small = rng.uniform(1.0, 3.0)
        big = small + rng.uniform(0.5, 4.0)
        for nm in names:
            if nm == 'theta':
                p[nm] = rng.uniform(-1, 3.5)
            elif nm.endswith('_in'):
                p[nm] = small * (0.8 if nm[0] in 'bh' else 1.0)
            elif nm.endswith('_out'):
                p[nm] = big * (0.8 if nm[0] in 'bh' else 1.0)
            else:
                p[nm] = rng.uniform(1.0, 5.0)
        return p

    def _make(self, cls, positions, params, src=None):
        import photutils.aperture as pa
        kw = dict(params)
        arr = np.array(positions, dtype=float) if src is None else src
        return getattr(pa, cls)(arr, **kw)

    def start(self, st, plan):
        sc = st.scene
        st.data = dec(sc['data'])
        st.params = dict(sc['params'])
        st.positions = _copy.deepcopy(sc['positions'])
        # the caller keeps the float64 array it built the aperture from
        st.src = np.array(st.positions, dtype=np.float64)
        st.obj = call(self._make, st.cfg['cls'], st.positions, st.params,
                      st.src)
        st.dead = isinstance(st.obj, Raised)
        st.nset = 0
        st.last = '-'

    def next_op(self, rng, st):
        if st.dead:
            return None
        r = rng.random()
        names = APER_CLASSES[st.cfg['cls']]
        if r < 0.4:
            nm = rng.pick(names + ['positions'])
            if nm == 'positions' and rng.chance(0.25):
                # the same position(s) again, possibly as (x, y) <-> [(x, y)]
                cur = np.atleast_2d(np.array(st.positions, dtype=float))
                if cur.shape[0] == 1 and rng.chance(0.7):
                    was_scalar = np.ndim(st.positions[0]) == 0
                    val = ([list(cur[0])] if was_scalar else list(cur[0]))
                else:
                    val = [list(r) for r in cur] if np.ndim(
                        st.positions[0]) else list(cur[0])
                return {'op': 'set', 'name': nm, 'value': val}
            if nm != 'positions' and nm != 'theta' and rng.chance(0.1):
                return {'op': 'set', 'name': nm, 'value': st.params[nm]}
            if nm == 'positions':
                if rng.chance(0.12):
                    return {'op': 'set', 'name': nm, 'value': [[1, 2, 3]]}
                n = rng.randint(1, 3)
                pos = [[rng.uniform(-3, 28), rng.uniform(-3, 26)]
                       for _ in range(n)]
                if rng.chance(0.4):
                    pos = pos[0]
                return {'op': 'set', 'name': nm, 'value': pos}
            if nm == 'theta':
                # a plain float (radians) or an angular Quantity
                un = rng.pick([None, None, 'rad', 'deg'])
                return {'op': 'set', 'name': nm, 'unit': un,
                        'value': rng.uniform(-3, 6) * (
                            30.0 if un == 'deg' else 1.0)}
            if rng.chance(0.12):
                return {'op': 'set', 'name': nm,
                        'value': rng.pick([-1.0, 0.0])}
            cur = st.params[nm]
            # keep annuli valid: scale inner and outer consistently
            val = cur * rng.uniform(0.9, 1.1)
            return {'op': 'set', 'name': nm, 'value': val}
        if r < 0.49 and r >= 0.46:
            # drawing the aperture on a cutout of the image (origin = the
            # cutout's lower-left corner) is a read
            return {'op': 'plot', 'origin': [rng.uniform(1, 9),
                                             rng.uniform(-4, 7)]}
        if r < 0.46:
            return {'op': 'alias', 'how': rng.pick(['edit_source',
                                                    'sibling_inplace',
                                                    'index_inplace']),
                    'shift': [rng.uniform(0.5, 3), rng.uniform(-3, -0.5)]}
        reads = ['bbox', 'area', 'shape', 'isscalar', 'len', 'repr',
                 'to_mask_exact', 'to_mask_center', 'to_mask_subpixel',
                 'do_photometry', 'area_overlap', 'positions_readback',
                 'do_photometry_masked', 'area_overlap_masked',
                 'area_overlap_masked', 'do_photometry_center',
                 'area_overlap_subpixel_masked',
                 # the same aperture on another, smaller frame
                 'do_photometry_small', 'area_overlap_small',
                 'to_mask_cutout_small']
        return {'op': 'read', 'what': rng.pick(reads)}

    @staticmethod
    def _observe(obj, what, data):
        if what == 'len':
            return call(len, obj)
        if what == 'repr':
            return call(lambda: (repr(obj), str(obj)))
        if what.startswith('to_mask'):
            m = what.split('_')[-1]
            out = call(obj.to_mask, method=m, subpixels=3)
            if isinstance(out, Raised):
                return out
            if isinstance(out, list):
                return [(np.asarray(x.data), plain(x.bbox)) for x in out]
            return (np.asarray(out.data), plain(out.bbox))
        if what == 'to_mask_cutout_small':
            out = call(obj.to_mask, method='exact')
            if isinstance(out, Raised):
                return out
            ms = out if isinstance(out, list) else [out]
            return [call(m.cutout, data[:13, :15]) for m in ms]
        if what.endswith('_small'):
            data = data[:13, :15]
        if what.startswith(('do_photometry', 'area_overlap')):
            # calls with different masks / methods on the same object: a
            # later call must not see what an earlier one did to any cache
            yy, xx = np.indices(data.shape)
            mask = ((xx + 2 * yy) % 3 == 0) if 'masked' in what else None
            meth = ('center' if 'center' in what else
                    'subpixel' if 'subpixel' in what else 'exact')
            fn = (obj.do_photometry if what.startswith('do_photometry')
                  else obj.area_overlap)
            return call(fn, data, mask=mask, method=meth, subpixels=3)
        if what == 'positions_readback':
            return call(lambda: {p: getattr(obj, p) for p in obj._params})
        return call(getattr, obj, what)

    def decoy(self, st):
        # same class and parameters at other positions, used with a mask
        pos = np.atleast_2d(np.array(st.positions, dtype=float)) + 1.7
        o = call(self._make, st.cfg['cls'], pos if pos.shape[0] > 1
                 else pos[0], st.params)
        if not isinstance(o, Raised):
            for w in ('to_mask_exact', 'area_overlap_masked',
                      'do_photometry_masked', 'bbox'):
                self._observe(o, w, st.data * 1.3 + 0.2)

    def _valid_state(self, st):
        p = st.params
        for a, b in (('r_in', 'r_out'), ('a_in', 'a_out'), ('b_in', 'b_out'),
                     ('w_in', 'w_out'), ('h_in', 'h_out')):
            if a in p and b in p and not p[b] > p[a]:
                return False
        return True

    def step(self, st, op):
        if st.dead:
            raise Inapplicable('dead')
        o = st.obj
        if op['op'] == 'plot':
            if not hasattr(o, 'plot'):
                return
            from matplotlib.figure import Figure
            ax = Figure().subplots()
            out = call(o.plot, ax=ax, origin=tuple(op['origin']))
            st.stats.probe('plotted_with_origin' if not isinstance(
                out, Raised) else 'plot_raised')
            return
        if op['op'] == 'alias':
            # in-place edits of arrays that are *not* the aperture: the
            # array it was built from, the positions of an aperture built
            # from aper.positions, the positions of aper[i:]
            d = np.array(op['shift'])
            how = op['how']
            if how == 'edit_source':
                st.src += d
            elif how == 'sibling_inplace':
                sib = call(self._make, st.cfg['cls'], None, st.params,
                           o.positions)
                if not isinstance(sib, Raised):
                    p = sib.positions
                    p += d
            else:
                if np.ndim(st.positions[0]) == 0:
                    return          # a scalar aperture cannot be indexed
                sub = call(lambda: o[0:1])
                if not isinstance(sub, Raised):
                    p = sub.positions
                    p += d
            st.stats.probe('aliasing_edit_' + how)
            return
        if op['op'] == 'set':
            nm, v = op['name'], op['value']
            if nm != 'positions' and nm not in st.params:
                raise Inapplicable(nm)
            bad = False
            if nm == 'positions':
                arr = np.atleast_2d(np.array(v, dtype=float))
                bad = arr.ndim > 2 or arr.shape[1] != 2
            elif nm != 'theta':
                bad = v <= 0
            ncached = sum(1 for k in o._lazyproperties if k in o.__dict__)
            if nm == 'theta' and op.get('unit'):
                import astropy.units as u
                v = v * getattr(u, op['unit'])
                st.stats.probe('theta_assigned_as_quantity')
            out = call(setattr, o, nm, np.array(v, dtype=float)
                       if nm == 'positions' else v)
            if bad:
                st.stats.fault('reject')
                if not isinstance(out, Raised):
                    raise Violation('reject', nm, f'{nm}={v} accepted')
                return
            if isinstance(out, Raised):
                raise Violation('raises', nm, f'{nm}={v}: {out!r}')
            if nm == 'positions':
                st.positions = v
            else:
                st.params[nm] = v
            st.nset += 1
            st.last = nm
            if ncached:
                st.stats.probe('setter_with_populated_cache')
            return
        what = op['what']
        if not self._valid_state(st):
            st.stats.probe('state_not_constructible')
            return
        val = self._observe(o, what, st.data)
        st.trace.add('read', what, digest(val))
        exp = _expect(st, lambda: self._observe(
            self._make(st.cfg['cls'], st.positions, st.params), what,
            st.data))
        _cmp(st, what, val, exp,
             what=f'{what} after {st.nset} assignments (last {st.last})')
        st.stats.sig(f'aper|{st.cfg["cls"]}|{st.last}>{what}')

    def simpler_cfgs(self, cfg):
        return ()


# ==========================================================================
# PSF photometry
# ==========================================================================
class PSFPhotFamily:
    name = 'psfphot'
    max_ops = 8
    real = ['PSFPhotometry', 'IterativePSFPhotometry', 'SourceGrouper',
            'DAOStarFinder', 'LocalBackground', 'CircularGaussianPRF',
            'astropy TRFLSQFitter', 'make_model_image']

    def make_cfg(self, rng, avoid):
        it = rng.chance(0.3)
        cfg = {'iterative': it,
               'finder': it or rng.chance(0.6),
               'grouper': rng.chance(0.6),
               'localbkg': rng.chance(0.3),
               'aperture_radius': 4.0,
               'xy_bounds': rng.pick([None, None, 2.0]),
               'fit_shape': rng.pick([5, 7]),
               'free_fwhm': rng.chance(0.2),
               'mode': 'new', 'avoid': sorted(avoid)}
        if it and cfg['grouper'] and rng.chance(0.5):
            cfg['mode'] = 'all'
        return cfg

    def make_scene(self, rng, cfg):
        imgs = []
        for _ in range(3):
            sc = scenes.star_field(rng, shape=(32, 34),
                                   nstars=rng.randint(1, 5), fwhm=3.0,
                                   noise=rng.pick([0.0, 0.5]))
            if rng.chance(0.3) and len(sc['srcs']) >= 2:
                # a close pair -> one group
                x, y = sc['srcs'][0][0], sc['srcs'][0][1]
                sc['srcs'][1] = (min(x + 3.0, 30), y, 150.0, 3 / 2.3548,
                                 3 / 2.3548, 0.0)
                sc['data'] = scenes.gaussians((32, 34), sc['srcs'])
            imgs.append({'data': enc(sc['data']),
                         'xy': [[s[0], s[1], s[2] * 2 * np.pi * s[3] ** 2]
                                for s in sc['srcs']]})
        imgs.append({'data': enc(np.zeros((32, 34))), 'xy': []})  # nothing
        g = rng.np()
        return {'images': imgs, 'mask': enc(g.random((32, 34)) < 0.02),
                'error': enc(np.full((32, 34), 1.3))}

    def build(self, cfg, sc):
        from astropy.modeling.fitting import TRFLSQFitter
        from photutils.background import LocalBackground
        from photutils.detection import DAOStarFinder
        from photutils.psf import (CircularGaussianPRF,
                                   IterativePSFPhotometry, PSFPhotometry,
                                   SourceGrouper)
        model = CircularGaussianPRF(flux=1.0, fwhm=3.0)
        if cfg['free_fwhm']:
            model.fwhm.fixed = False
        kw = dict(
            finder=DAOStarFinder(5.0, 3.0) if cfg['finder'] else None,
            grouper=SourceGrouper(6.0) if cfg['grouper'] else None,
            localbkg_estimator=LocalBackground(5, 9) if cfg['localbkg']
            else None,
            aperture_radius=cfg['aperture_radius'],
            xy_bounds=cfg['xy_bounds'], fitter=TRFLSQFitter())
        if cfg['iterative']:
            finder = kw.pop('finder')
            return IterativePSFPhotometry(model, cfg['fit_shape'], finder,
                                          mode=cfg['mode'], maxiters=2, **kw)
        return PSFPhotometry(model, cfg['fit_shape'], **kw)

    def start(self, st, plan):
        st.obj = call(self.build, st.cfg, st.scene)
        st.dead = isinstance(st.obj, Raised)
        st.last_call = None
        st.ncalls = 0
        st.hist = []

    def next_op(self, rng, st):
        if st.dead:
            return None
        r = rng.random()
        if r < 0.55 or st.last_call is None:
            nimg = len(st.scene['images'])
            i = rng.randrange(nimg)
            use_init = (not st.cfg['finder']) or rng.chance(0.5)
            init = None
            if use_init:
                cols = ['xy']
                if rng.chance(0.5):
                    cols.append('flux')
                if rng.chance(0.4) and 'group_id' not in st.cfg['avoid']:
                    cols.append('group_id')
                if rng.chance(0.3):
                    cols.append('local_bkg')
                if rng.chance(0.25):
                    cols.append('id')       # the caller's own numbering
                init = {'cols': cols, 'reverse': rng.chance(0.3),
                        'masked_source': rng.chance(0.1),
                        'masked_index': rng.randrange(6),
                        'zero_error': rng.chance(0.07)}
            if not st.cfg['finder'] and rng.chance(0.08):
                init = None      # reject: no finder and no init_params
            return {'op': 'call', 'image': i, 'mask': rng.chance(0.3),
                    'error': rng.chance(0.4), 'init': init,
                    'reuse_buffer': rng.chance(0.4)}
        what = rng.pick(['results', 'fit_info', 'init_params',
                         'finder_results', 'fit_params', 'model_image',
                         'residual_image', 'model_image', 'residual_image',
                         'config'])
        return {'op': 'read', 'what': what,
                'localbkg': rng.chance(0.4),
                'psf_shape': rng.pick([None, None, 5, [7, 5]])}

    def _request(self, st, op):
        from astropy.table import Table
        sc = st.scene
        img = sc['images'][op['image']]
        data = dec(img['data']).copy()
        mask = dec(sc['mask']).copy() if op['mask'] else None
        error = dec(sc['error']).copy() if op['error'] else None
        init = None
        if op['init'] is not None:
            xy = img['xy']
            if not xy:
                xy = [[10.0, 12.0, 100.0]]
            rows = list(xy)
            if op['init']['reverse']:
                rows = rows[::-1]
            t = Table()
            t['x'] = [r[0] + 0.3 for r in rows]
            t['y'] = [r[1] - 0.2 for r in rows]
            cols = op['init']['cols']
            if 'flux' in cols:
                t['flux'] = [r[2] * 0.9 for r in rows]
            if 'group_id' in cols:
                t['group_id'] = [1 + (k % 2) for k in range(len(rows))]
            if 'local_bkg' in cols:
                t['local_bkg'] = [0.1 * k for k in range(len(rows))]
            if 'id' in cols:
                # 1..N in another order (rotated by one)
                n = len(rows)
                t['id'] = [(k + 1) % n + 1 for k in range(n)]
            init = t
            # faults inside the fit loop: a completely masked source or a
            # zero error pixel at one of the *later* sources makes the call
            # raise after earlier groups were already processed
            if op['init'].get('masked_source'):
                mask = np.zeros(data.shape, bool) if mask is None else mask
                r = rows[op['init'].get('masked_index', 0) % len(rows)]
                x, y = int(round(r[0])), int(round(r[1]))
                mask[max(0, y - 6):y + 7, max(0, x - 6):x + 7] = True
            if op['init'].get('zero_error'):
                error = dec(sc['error']).copy() if error is None else error
                r = rows[-1]
                error[int(round(r[1])), int(round(r[0]))] = 0.0
        return data, mask, error, init

    @staticmethod
    def _do_call(obj, req):
        data, mask, error, init = req
        return call(obj, data.copy(), mask=None if mask is None
                    else mask.copy(), error=None if error is None
                    else error.copy(),
                    init_params=None if init is None else init.copy())

    @staticmethod
    def _observe(obj, what, data, cfg, opts=None):
        opts = opts or {}
        kw = {'include_localbkg': bool(opts.get('localbkg'))}
        ps = opts.get('psf_shape')
        if ps is not None:
            kw['psf_shape'] = tuple(ps) if isinstance(ps, list) else ps
        if what == 'fit_info':
            fi = call(lambda: obj.fit_info if not cfg['iterative']
                      else obj.fit_results[-1].fit_info)
            if isinstance(fi, Raised):
                return fi
            return {'keys': sorted(fi.keys()),
                    'fit_error_indices': np.asarray(
                        fi.get('fit_error_indices', [])),
                    'fit_param_errs': np.asarray(
                        fi.get('fit_param_errs', []))}
        if what == 'model_image':
            return call(obj.make_model_image, data.shape, **kw)
        if what == 'residual_image':
            return call(obj.make_residual_image, data, **kw)
        if what == 'config':
            o = obj._psfphot if cfg['iterative'] else obj
            return {'grouper': repr(o.grouper),
                    'finder': type(o.finder).__name__,
                    'fit_shape': tuple(o.fit_shape),
                    'aperture_radius': o.aperture_radius,
                    'xy_bounds': repr(o.xy_bounds),
                    'localbkg': type(o.localbkg_estimator).__name__,
                    'maxiters': o.fitter_maxiters}
        if what in ('results', 'init_params', 'finder_results',
                    'fit_params'):
            if cfg['iterative'] and what != 'finder_results':
                return call(lambda: getattr(obj.fit_results[-1], what)
                            if obj.fit_results else None)
            if cfg['iterative']:
                return call(lambda: [f.finder_results
                                     for f in obj.fit_results])
            return call(getattr, obj, what)
        raise Inapplicable(what)

    def step(self, st, op):
        if st.dead:
            raise Inapplicable('dead')
        o = st.obj
        if op['op'] == 'call':
            if op['image'] >= len(st.scene['images']):
                raise Inapplicable('image')
            req = self._request(st, op)
            if op.get('reuse_buffer'):
                if getattr(st, 'buf', None) is None:
                    st.buf = req[0].copy()
                else:
                    st.buf[...] = req[0]
                data, mask, error, init = req
                if mask is not None:
                    # ... and one bad-pixel mask array for all exposures
                    if getattr(st, 'maskbuf', None) is None or \
                            st.maskbuf.shape != mask.shape:
                        st.maskbuf = mask.copy()
                    else:
                        st.maskbuf[...] = mask
                    mask = st.maskbuf
                out = call(o, st.buf, mask=None if mask is None
                           else mask, error=None if error is None
                           else error.copy(),
                           init_params=None if init is None else init.copy())
                st.stats.probe('same_buffer_object_refilled')
            else:
                out = self._do_call(o, req)
            st.trace.add('call', digest(out))
            exp = _expect(st, lambda: self._do_call(
                self.build(st.cfg, st.scene), req))
            if isinstance(exp, Raised):
                st.stats.fault('reject')
            desc = (f'call #{st.ncalls + 1} image={op["image"]} '
                    f'init={op["init"] and op["init"]["cols"]} after '
                    f'{st.hist}')
            _cmp(st, 'call', out, exp, what=desc)
            cur = self._observe(o, 'config', req[0], st.cfg)
            new = self._observe(self.build(st.cfg, st.scene), 'config',
                                req[0], st.cfg)
            d = diff(cur, new)
            if d:
                raise Violation('config_changed', d.split(':')[0].strip(
                    "[]'"), f'after {desc}: configuration differs from the '
                    f'constructor arguments: {d}')
            prev = st.hist[-1] if st.hist else '-'
            tag = ('I' + ''.join(c[0] for c in op['init']['cols'])
                   if op['init'] else 'F')
            if isinstance(out, Raised):
                tag += '!'
            elif out is None:
                tag += '0'
            st.stats.sig(f'psf|{int(st.cfg["iterative"])}'
                         f'{int(st.cfg["grouper"])}|{prev}>{tag}')
            if (op['init'] and 'group_id' in op['init']['cols']
                    and st.cfg['grouper']):
                st.group_id_seen = True
            elif getattr(st, 'group_id_seen', False) and st.cfg['grouper']:
                st.stats.probe('call_with_group_id_then_without')
            st.hist.append(tag)
            st.ncalls += 1
            st.last_call = op
            # the containers themselves (not copies): a caller that keeps
            # phot.fit_info / phot.fit_results of one image must not find
            # the next image's diagnostics in them
            if st.held is not None:
                for nm in (('fit_results',) if st.cfg['iterative'] else
                           ('fit_info', 'fit_params', 'results',
                            'finder_results', 'init_params')):
                    v = call(getattr, o, nm)
                    if not isinstance(v, Raised):
                        st.held.add(nm, v)
            return
        if st.last_call is None:
            raise Inapplicable('no call yet')
        what = op['what']
        req = self._request(st, st.last_call)
        val = self._observe(o, what, req[0], st.cfg, op)
        st.trace.add('read', what, digest(val))
        fresh = self.build(st.cfg, st.scene)
        self._do_call(fresh, req)
        exp = self._observe(fresh, what, req[0], st.cfg, op)
        _cmp(st, what, val, exp,
             what=f'{what} after calls {st.hist}')

    def decoy(self, st):
        o = call(self.build, st.cfg, st.scene)
        if not isinstance(o, Raised):
            img = dec(st.scene['images'][0]['data']) * 1.4 + 0.3
            from astropy.table import Table
            t = Table()
            t['x'] = [11.0, 20.5]
            t['y'] = [9.0, 17.5]
            call(o, img, init_params=t)

    def simpler_cfgs(self, cfg):
        for k, v in (('localbkg', False), ('xy_bounds', None),
                     ('free_fwhm', False), ('iterative', False)):
            if cfg.get(k) != v:
                c = {**cfg, k: v}
                if k == 'iterative':
                    c['mode'] = 'new'
                yield c


# ==========================================================================
# star finders
# ==========================================================================
class FinderFamily:
    name = 'finder'
    max_ops = 8
    real = ['DAOStarFinder', 'IRAFStarFinder', 'StarFinder']

    def make_cfg(self, rng, avoid):
        return {'cls': rng.pick(['dao', 'iraf', 'star']),
                'brightest': rng.pick([None, None, 2]),
                'exclude_border': rng.chance(0.3),
                'min_separation': rng.pick([0.0, 3.0, 5.0]),
                'xycoords': rng.chance(0.15), 'unit': rng.chance(0.15)}

    def make_scene(self, rng, cfg):
        imgs = []
        for _ in range(3):
            sc = scenes.star_field(rng, shape=(30, 33), fwhm=3.0)
            imgs.append(enc(sc['data']))
        imgs.append(enc(np.zeros((30, 33))))
        g = rng.np()
        yy, xx = np.mgrid[-3:4, -3:4]
        kern = np.exp(-(xx ** 2 + yy ** 2) / (2 * 1.3 ** 2)) * rng.uniform(
            1, 7)
        return {'images': imgs, 'mask': enc(g.random((30, 33)) < 0.03),
                'kernel': enc(kern),
                'xycoords': [[rng.uniform(5, 28), rng.uniform(5, 25)]
                             for _ in range(3)]}

    def build(self, cfg, sc):
        from photutils.detection import (DAOStarFinder, IRAFStarFinder,
                                         StarFinder)
        import astropy.units as u
        thr = 5.0 * u.Jy if cfg['unit'] else 5.0
        if cfg['cls'] == 'star':
            return StarFinder(thr, dec(sc['kernel']).copy(),
                              min_separation=cfg['min_separation'],
                              exclude_border=cfg['exclude_border'],
                              brightest=cfg['brightest'])
        cls = DAOStarFinder if cfg['cls'] == 'dao' else IRAFStarFinder
        kw = {}
        if cfg['xycoords']:
            kw['xycoords'] = np.array(sc['xycoords'])
        return cls(thr, 3.0, brightest=cfg['brightest'],
                   exclude_border=cfg['exclude_border'],
                   min_separation=cfg['min_separation'], **kw)

    def start(self, st, plan):
        st.obj = call(self.build, st.cfg, st.scene)
        st.dead = isinstance(st.obj, Raised)
        st.hist = []

    def next_op(self, rng, st):
        if st.dead:
            return None
        return {'op': 'call', 'image': rng.randrange(len(
            st.scene['images'])), 'mask': rng.chance(0.3),
            'method': rng.pick(['call', 'find_stars']),
            'reuse_buffer': rng.chance(0.5),
            # this exposure comes with / without a unit, unlike the others
            'unit_flip': rng.chance(0.12)}

    def step(self, st, op):
        if st.dead:
            raise Inapplicable('dead')
        import astropy.units as u
        if op['image'] >= len(st.scene['images']):
            raise Inapplicable('image')
        data = dec(st.scene['images'][op['image']]).copy()
        if bool(st.cfg['unit']) != bool(op.get('unit_flip')):
            data = data * u.Jy
        mask = dec(st.scene['mask']).copy() if op['mask'] else None

        if op.get('reuse_buffer'):
            # the caller keeps one image buffer and refills it in place
            # between calls (buf[:] = next_image): same array object, new
            # pixels - a finder must not remember anything about it
            if getattr(st, 'buf', None) is None or \
                    st.buf.shape != data.shape or \
                    type(st.buf) is not type(data):
                st.buf = data.copy()
            else:
                st.buf[...] = data
            st.stats.probe('same_buffer_object_refilled')

        def run(obj, own=False):
            fn = obj if op['method'] == 'call' else obj.find_stars
            arr = st.buf if (own and op.get('reuse_buffer')) else \
                data.copy()
            return call(fn, arr, mask=None if mask is None
                        else mask.copy())
        out = run(st.obj, own=True)
        st.trace.add('call', digest(out))
        exp = _expect(st, lambda: run(self.build(st.cfg, st.scene)))
        _cmp(st, 'call', out, exp, what=f'call on image {op["image"]} '
             f'after {st.hist}')
        tag = f'{op["image"]}{"m" if op["mask"] else ""}'
        st.stats.sig(f'finder|{st.cfg["cls"]}|{st.hist[-1:]}>{tag}')
        st.hist.append(tag)

    def decoy(self, st):
        import astropy.units as u
        o = call(self.build, st.cfg, st.scene)
        if not isinstance(o, Raised):
            img = dec(st.scene['images'][1]) * 1.4 + 0.3
            call(o, img * u.Jy if st.cfg['unit'] else img)

    def simpler_cfgs(self, cfg):
        for k, v in (('unit', False), ('xycoords', False),
                     ('brightest', None), ('exclude_border', False)):
            if cfg.get(k) != v:
                yield {**cfg, k: v}


# ==========================================================================
# Ellipse
# ==========================================================================
class EllipseFamily:
    name = 'ellipse'
    max_ops = 4
    real = ['isophote.Ellipse.fit_image / fit_isophote', 'EllipseGeometry']

    def make_cfg(self, rng, avoid):
        return {'geometry': rng.chance(0.8), 'avoid': sorted(avoid)}

    def make_scene(self, rng, cfg):
        n = 48
        yy, xx = np.mgrid[0:n, 0:n].astype(float)
        x0, y0 = n / 2 + rng.uniform(-2, 2), n / 2 + rng.uniform(-2, 2)
        eps = rng.uniform(0.1, 0.5)
        pa = rng.uniform(0, np.pi)
        c, s = np.cos(pa), np.sin(pa)
        xr = (xx - x0) * c + (yy - y0) * s
        yr = -(xx - x0) * s + (yy - y0) * c
        r = np.sqrt(xr ** 2 + (yr / (1 - eps)) ** 2)
        img = 1000.0 * np.exp(-r / 6.0) + rng.np().normal(0, 0.5, (n, n))
        return {'image': enc(img), 'x0': x0 + rng.uniform(-0.5, 0.5),
                'y0': y0 + rng.uniform(-0.5, 0.5), 'sma': 8.0,
                'eps': min(0.8, eps + rng.uniform(-0.05, 0.05)),
                'pa': pa + rng.uniform(-0.1, 0.1)}

    def build(self, cfg, sc):
        from photutils.isophote import Ellipse, EllipseGeometry
        geom = None
        if cfg['geometry']:
            geom = EllipseGeometry(sc['x0'], sc['y0'], sc['sma'], sc['eps'],
                                   sc['pa'])
        return Ellipse(dec(sc['image']).copy(), geom)

    def start(self, st, plan):
        st.obj = call(self.build, st.cfg, st.scene)
        st.dead = isinstance(st.obj, Raised)
        st.hist = []

    def next_op(self, rng, st):
        if st.dead:
            return None
        avoid = 'ellipse-fix-persists' in st.cfg['avoid']
        if rng.chance(0.3):
            return {'op': 'fit_isophote', 'sma': rng.pick([5.0, 9.0, 14.0])}
        if rng.chance(0.08):
            # a call that is refused ("everything is fixed"): it returns an
            # empty list and must leave the object as it was.  (Its own op
            # name: on the pinned tree it does not write the flags, unlike
            # the partial fix_* calls of the known finding.)
            return {'op': 'fit_all_fixed', 'kw': {'maxsma': 12.0}}
        kw = {'maxsma': rng.pick([12.0, 16.0]),
              'minsma': rng.pick([0.0, 3.0]),
              'step': rng.pick([0.2, 0.3]), 'sma0': rng.pick([None, 6.0])}
        if not avoid:
            if rng.chance(0.35):
                kw[rng.pick(['fix_center', 'fix_pa', 'fix_eps'])] = True
            if rng.chance(0.3):
                kw['linear'] = rng.pick([True, False])
                if kw['linear']:
                    kw['step'] = 2.0
        return {'op': 'fit_image', 'kw': kw}

    @staticmethod
    def _observe(out):
        if out is None or isinstance(out, Raised):
            return out
        if hasattr(out, 'sma') and not hasattr(out, 'get_closest'):
            iso = out
            return {k: getattr(iso, k) for k in
                    ('sma', 'intens', 'eps', 'pa', 'x0', 'y0', 'stop_code',
                     'niter')}
        return {k: np.asarray(getattr(out, k)) for k in
                ('sma', 'intens', 'eps', 'pa', 'x0', 'y0', 'stop_code',
                 'niter')}

    def step(self, st, op):
        if st.dead:
            raise Inapplicable('dead')

        def run(obj):
            if op['op'] == 'fit_isophote':
                return self._observe(call(obj.fit_isophote, op['sma']))
            if op['op'] == 'fit_all_fixed':
                return self._observe(call(
                    obj.fit_image, fix_center=True, fix_pa=True,
                    fix_eps=True, **op['kw']))
            return self._observe(call(obj.fit_image, **op['kw']))
        out = run(st.obj)
        st.trace.add('fit', digest(out))
        exp = run(self.build(st.cfg, st.scene))
        tag = op['op'][4:6] + ''.join(sorted(
            k[:5] for k, v in op.get('kw', {}).items()
            if k.startswith('fix') or (k == 'linear')))
        if op['op'] == 'fit_all_fixed':
            tag = 'ALLFIXED'
            st.stats.fault('reject')
        if st.hist and any('fix' in h for h in st.hist) and 'fix' not in tag:
            st.stats.probe('fit_with_fix_then_without')
        _cmp(st, op['op'], out, exp,
             what=f'{op} after {st.hist}')
        st.stats.sig(f'ell|{st.hist[-1:]}>{tag}')
        st.hist.append(tag)

    def simpler_cfgs(self, cfg):
        return ()


FAMILIES = {'background': BackgroundFamily, 'profile': ProfileFamily,
            'aperture': ApertureFamily, 'psfphot': PSFPhotFamily,
            'finder': FinderFamily, 'ellipse': EllipseFamily}


class FreshMachine(Machine):
    pid = 'C09'

    def __init__(self, variant='background'):
        self.variant = variant
        self.fam = FAMILIES[variant]()
        self.name = 'fresh-' + variant
        self.max_ops = self.fam.max_ops
        self.real_components = list(self.fam.real)
        self.stub_components = ['none (public API only)']
        self.rule = ('one run = one object built from a seeded configuration '
                     'and a history of reads / assignments / calls, each '
                     'observation compared with a fresh object answering '
                     'that single request; distinct = distinct (family, '
                     'configuration bucket, previous operation -> '
                     'operation) pairs')

    def make_cfg(self, rng, avoid):
        return self.fam.make_cfg(rng, avoid)

    def make_scene(self, rng, cfg):
        return self.fam.make_scene(rng, cfg)

    def start(self, plan, stats, trace):
        st = _St()
        st.stats, st.trace, st.cfg = stats, trace, plan['cfg']
        st.scene = plan['scene']
        st.nops = 0
        # values handed out earlier must stay what they were
        st.held = Held() if self.variant in ('background', 'profile',
                                             'aperture', 'finder') else \
            Held(limit=8) if self.variant == 'psfphot' else None
        self.fam.start(st, plan)
        return st

    def next_op(self, rng, st):
        if hasattr(self.fam, 'decoy') and not getattr(st, 'dead', False) \
                and rng.chance(0.05):
            return {'op': 'decoy'}
        op = self.fam.next_op(rng, st)
        if op is not None and self.variant != 'ellipse':
            op['iso'] = rng.chance(0.12)
        return op

    def step(self, st, op):
        st.nops += 1
        if op.get('op') == 'decoy':
            # an unrelated object of the same class at work in the same
            # process: nothing it does may change what O or a fresh object
            # report afterwards
            if not hasattr(self.fam, 'decoy') or getattr(st, 'dead', False):
                raise Inapplicable('decoy')
            self.fam.decoy(st)
            st.stats.probe('decoy_instance_used')
            return
        st.iso = bool(op.get('iso'))
        try:
            self.fam.step(st, op)
        finally:
            st.iso = False
        if st.held is not None:
            st.held.check(f'by {op}')

    def nontrivial(self, plan, st):
        return st.nops >= 2

    def simpler_scenes(self, plan):
        for cfg in self.fam.simpler_cfgs(plan['cfg']):
            p = dict(plan)
            p['cfg'] = cfg
            yield p
