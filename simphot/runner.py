"""Batch runner: fan seeds out over processes, aggregate, write evidence and
replay files, print the verdict lines required by the interface."""

from __future__ import annotations

import faulthandler
import json
import multiprocessing as mp
import os
import subprocess
import sys
import time
from concurrent.futures import ProcessPoolExecutor, wait, FIRST_COMPLETED
from concurrent.futures.process import BrokenProcessPool

from simphot import kernel
from simphot.kernel import VERIF, derive, execute, load_known, summarize

_MACHINE = None


WARM_MODULES = [
    'photutils.aperture', 'photutils.background', 'photutils.centroids',
    'photutils.datasets', 'photutils.detection', 'photutils.isophote',
    'photutils.morphology', 'photutils.profiles', 'photutils.psf',
    'photutils.segmentation', 'photutils.utils', 'photutils.psf.matching',
    'skimage.segmentation', 'rasterio.features', 'shapely',
    'shapely.geometry', 'matplotlib.colors', 'matplotlib.patches',
    'matplotlib.pyplot', 'regions', 'scipy.ndimage', 'scipy.interpolate',
    'scipy.optimize', 'scipy.spatial', 'scipy.signal', 'scipy.special',
    'astropy.modeling.fitting', 'astropy.modeling.models',
    'astropy.convolution', 'astropy.wcs', 'astropy.nddata', 'astropy.stats',
    'astropy.table', 'astropy.coordinates', 'astropy.units',
    'astropy.wcs.utils', 'astropy.visualization', 'bottleneck',
    'concurrent.futures.process', 'multiprocessing.queues', 'pickle',
]


def warm_imports():
    """Import (only import) everything the machines import lazily, in the
    batch's main process, so that the forked per-run children do not repeat
    the imports.  No photutils code runs here, so no library state is
    created that a fresh replay process would lack."""
    import importlib
    for name in WARM_MODULES:
        try:
            importlib.import_module(name)
        except Exception:  # noqa: BLE001 - optional dependency missing
            pass
    for pid, variants in VARIANTS.items():
        for key, _ in variants:
            try:
                get_machine(key)
            except Exception:  # noqa: BLE001
                pass


_WARMED = set()


def warm_run(key, n=3):
    """Execute a fixed, seed-independent warm-up (n short runs of the
    machine) in the current process.  Every batch main process (whose forked
    children execute the runs) and every replay process does exactly this
    before anything else, so "a fresh process" means the same thing
    everywhere; it fills the lazy caches of numpy / astropy / scipy that
    would otherwise be rebuilt in every isolated run."""
    if key in _WARMED:
        return
    _WARMED.add(key)
    m = get_machine(key)
    for j in range(n):
        try:
            kernel.run_seed(m, derive('warmup', key, j))
        except Exception:  # noqa: BLE001
            pass


def _init_worker():
    os.environ.setdefault('OMP_NUM_THREADS', '1')
    faulthandler.enable()


def _chunk_task(args):
    (machine_key, base_seed, indices, avoid_frac, known, shrink_budget,
     keep_samples, run_timeout, ops_scale) = args
    machine = get_machine(machine_key)
    return kernel.run_chunk(machine, base_seed, indices, avoid_frac, known,
                            shrink_budget, keep_samples, run_timeout,
                            ops_scale, machine_key=machine_key)


# machine registry -----------------------------------------------------------
def _register_factory():
    kernel.MACHINE_FACTORY = get_machine


def get_machine(key):
    """key: e.g. 'C06', 'C06:fault'."""
    pid, _, variant = key.partition(':')
    if pid == 'C06':
        from simphot.machines.deblend import DeblendMachine
        return DeblendMachine(fault_tier=(variant == 'fault'))
    if pid == 'C05':
        from simphot.machines.segm import SegmMachine
        return SegmMachine()
    if pid == 'C08':
        from simphot.machines.catalog import CatalogMachine
        return CatalogMachine(variant or 'source')
    if pid == 'C09':
        if variant == 'gridded':
            from simphot.machines.psfmodel import PSFModelMachine
            return PSFModelMachine('gridded', pid='C09')
        from simphot.machines.fresh import FreshMachine
        return FreshMachine(variant or 'background')
    if pid == 'C10':
        from simphot.machines.inputs import InputsMachine
        return InputsMachine(fault_tier=(variant == 'fault'))
    if pid == 'C13':
        from simphot.machines.psfmodel import PSFModelMachine
        return PSFModelMachine(variant or 'image')
    if pid == 'C19':
        from simphot.machines.profile import ProfileMachine
        return ProfileMachine(variant or 'radial')
    raise KeyError(key)


# (variant key, share of the time budget) per property and tier
_register_factory()

VARIANTS = {
    'C05': [('C05', 1.0)],
    'C06': [('C06', 0.7), ('C06:fault', 0.3)],
    'C08': [('C08:source', 0.65), ('C08:aperstats', 0.35)],
    'C09': [('C09:background', 0.2), ('C09:profile', 0.14),
            ('C09:aperture', 0.16), ('C09:psfphot', 0.25),
            ('C09:finder', 0.08), ('C09:ellipse', 0.12),
            ('C09:gridded', 0.05)],
    'C10': [('C10', 0.75), ('C10:fault', 0.25)],
    'C13': [('C13:image', 0.5), ('C13:gridded', 0.5)],
    'C19': [('C19:radial', 0.5), ('C19:cog', 0.5)],
}

BUDGET = {  # seconds of wall clock per tier
    'C05': {'quick': 50, 'thorough': 900},
    'C06': {'quick': 55, 'thorough': 900},
    'C08': {'quick': 75, 'thorough': 1200},
    'C09': {'quick': 85, 'thorough': 1200},
    'C10': {'quick': 75, 'thorough': 1200},
    'C13': {'quick': 40, 'thorough': 600},
    'C19': {'quick': 40, 'thorough': 600},
}


class Agg:
    def __init__(self):
        self.evaluations = 0
        self.steps = 0
        self.sim_time = 0.0
        self.faults = {}
        self.probes = {}
        self.extra = {}
        self.sigs = set()
        self.nontrivial_sigs = set()
        self.verdicts = {'OK': 0, 'VIOLATION': 0, 'KNOWN': 0, 'HARNESS': 0,
                         'UNCONFIRMED': 0, 'SLOW': 0}
        self.slow = []
        self.unconfirmed = []
        self.samples = []
        self.violations = []
        self.known = {}
        self.harness = []
        self.seeds = []
        self.by_variant = {}

    def add(self, key, res):
        res['machine_key'] = key
        self.evaluations += 1
        self.steps += res['steps']
        self.sim_time += res.get('sim_time', 0.0)
        bv = self.by_variant.setdefault(key, {'runs': 0, 'steps': 0})
        bv['runs'] += 1
        bv['steps'] += res['steps']
        for k, v in res['faults'].items():
            self.faults[k] = self.faults.get(k, 0) + v
        for k, v in res['probes'].items():
            self.probes[k] = self.probes.get(k, 0) + v
        for k, v in res.get('extra', {}).items():
            if isinstance(v, dict):
                d = self.extra.setdefault(k, {})
                for kk, vv in v.items():
                    d[kk] = d.get(kk, 0) + vv
        for s in res['sigs']:
            self.sigs.add(derive(key, s))
        if res.get('sig'):
            h = derive(key, res['sig'])
            self.sigs.add(h)
        self.verdicts[res['verdict']] += 1
        if 'plan' in res and len(self.samples) < 3 and res['verdict'] == 'OK':
            self.samples.append(summarize(res['plan']))
        if res['verdict'] == 'VIOLATION':
            self.violations.append((key, res))
        elif res['verdict'] == 'KNOWN':
            self.known.setdefault(res['known_id'], []).append((key, res))
        elif res['verdict'] == 'HARNESS':
            self.harness.append((key, res))
        elif res['verdict'] == 'UNCONFIRMED':
            self.unconfirmed.append((key, res))
        elif res['verdict'] == 'SLOW':
            self.slow.append((key, res.get('seed')))


def run_variant(key, base_seed, budget_s, max_runs, workers, agg, known,
                chunk=4, shrink_budget=200, run_timeout=120,
                avoid_frac=70, ops_scale=1.0):
    """Run seeds of one machine variant until the time budget is used."""
    warm_run(key)
    ctx = mp.get_context('fork')
    t_end = time.time() + budget_s
    next_index = 0
    pending = {}
    broken = 0
    with ProcessPoolExecutor(max_workers=workers, mp_context=ctx,
                             initializer=_init_worker) as ex:
        def submit():
            nonlocal next_index
            idx = list(range(next_index, min(next_index + chunk, max_runs)))
            if not idx:
                return False
            next_index += len(idx)
            f = ex.submit(_chunk_task, (key, base_seed, idx, avoid_frac,
                                        known, shrink_budget, 32,
                                        run_timeout, ops_scale))
            pending[f] = idx
            return True

        try:
            for _ in range(workers * 2):
                if not submit():
                    break
            while pending:
                done, _ = wait(list(pending), timeout=5,
                               return_when=FIRST_COMPLETED)
                for f in done:
                    idx = pending.pop(f)
                    try:
                        for res in f.result():
                            agg.add(key, res)
                    except BrokenProcessPool:
                        raise
                    except Exception as e:  # noqa: BLE001
                        agg.harness.append((key, {
                            'verdict': 'HARNESS', 'seed': None,
                            'error': f'worker task failed for indices {idx}: '
                                     f'{e!r}'}))
                        agg.verdicts['HARNESS'] += 1
                    # enough counter-examples: stop exploring, report
                    if time.time() < t_end and len(agg.violations) < 6:
                        submit()
        except BrokenProcessPool as e:
            broken += 1
            agg.harness.append((key, {
                'verdict': 'HARNESS', 'seed': None,
                'error': f'worker process died (timeout or crash): {e!r}; '
                         f'indices in flight {sorted(sum(pending.values(), []))}'}))
            agg.verdicts['HARNESS'] += 1
    return next_index


def write_replay(pid, res, suffix=''):
    os.makedirs(os.path.join(VERIF, 'replays'), exist_ok=True)
    plan = res['min_plan']
    path = os.path.join(VERIF, 'replays',
                        f'{pid}-{res["seed"]}{suffix}.json')
    doc = {'property': pid, 'machine_key': res['machine_key'],
           'seed': res['seed'],
           'violation': res['min_violation'], 'plan': plan,
           'original_ops': res['nops'], 'shrink_execs': res.get(
               'shrink_execs')}
    with open(path, 'w') as fh:
        json.dump(doc, fh, indent=1, sort_keys=True)
    return path


def replay_file(path, verbose=True):
    """Re-execute a replay file; returns (reproduced?, result)."""
    with open(path) as fh:
        doc = json.load(fh)
    warm_imports()
    warm_run(doc['machine_key'])
    machine = get_machine(doc['machine_key'])
    res = execute(machine, doc['plan'])
    want = doc['violation']
    ok = (res['verdict'] == 'VIOLATION'
          and kernel.same_class(res['violation'], want))
    if verbose:
        print(f'replay {path}: verdict={res["verdict"]}')
        if res['violation']:
            v = res['violation']
            print(f'  invariant={v["invariant"]} subject={v["subject"]} '
                  f'step={v["step"]}')
            print(f'  detail: {v["detail"]}')
        if res.get('error'):
            print(res['error'])
        print('  reproduced' if ok else '  NOT reproduced')
    return ok, res


def replay_fresh(path):
    """Replay in a fresh interpreter (determinism guard before reporting)."""
    cmd = [sys.executable, os.path.join(VERIF, 'check'), 'replay', path]
    p = subprocess.run(cmd, capture_output=True, text=True, timeout=600)
    return p.returncode == 1 and 'reproduced' in p.stdout \
        and 'NOT reproduced' not in p.stdout, p.stdout + p.stderr


def run_property(pid, tier, base_seed, workers=16, budget_override=None,
                 max_runs=10 ** 9, out_dir=None, only=None):
    warm_imports()
    t0 = time.time()
    known_all, fixed = load_known()
    known = [k for k in known_all if k.get('property') == pid]
    agg = Agg()
    budget = budget_override or BUDGET[pid][tier]
    variants = VARIANTS[pid]
    if only:
        variants = [(k, 1.0) for k, _ in variants if k in only]
    for key, share in variants:
        n = run_variant(key, base_seed, budget * share, max_runs, workers,
                        agg, known,
                        shrink_budget=(200 if tier == 'quick' else 300),
                        run_timeout=(120 if tier == 'quick' else 240),
                        ops_scale=(1.0 if tier == 'quick' else 2.0))
    fidelity = None
    if pid == 'C06' and tier == 'thorough' and not only:
        from simphot.machines.deblend import real_pool_fidelity
        try:
            nfid, badfid = real_pool_fidelity(base_seed)
            fidelity = {'scenes_compared_with_real_spawn_pool': nfid,
                        'nproc_values': [2, 4], 'mismatches': badfid}
        except Exception as e:  # noqa: BLE001
            fidelity = {'error': repr(e)}
            agg.harness.append((pid, {'verdict': 'HARNESS', 'seed': None,
                                      'error': f'fidelity run: {e!r}'}))
            agg.verdicts['HARNESS'] += 1
    wall = time.time() - t0

    # --- report ----------------------------------------------------------
    exit_code = 0
    lines = []
    for kid, lst in sorted(agg.known.items()):
        rec = next(k for k in known if k['id'] == kid)
        lines.append(f'KNOWN-FINDING: property={pid} {kid}: {rec["what"]} '
                     f'(matched by {len(lst)} minimised histories)')
    # One replay per violation class (at most five classes); the rest is
    # counted in the evidence.  A minimised plan must reproduce in a fresh
    # process before it is reported; when it does not (state that leaked
    # into this worker from an earlier run of the batch), further
    # counter-examples of the same class are tried before the class is
    # declared a harness error.
    reported, tried, failed = set(), {}, {}
    for key, res in agg.violations:
        cls = (res['min_violation']['invariant'],
               res['min_violation']['subject'])
        if cls in reported or tried.get(cls, 0) >= 4:
            continue
        if cls not in tried and len(tried) >= 5:
            continue
        tried[cls] = tried.get(cls, 0) + 1
        path = write_replay(pid, res)
        ok, out = replay_fresh(path)
        if ok:
            reported.add(cls)
            failed.pop(cls, None)
            lines.append(f'VIOLATION property={pid} replay={path}')
            v = res['min_violation']
            lines.append(f'  {v["invariant"]}[{v["subject"]}] {v["detail"]}')
            exit_code = 1
        else:
            try:
                os.remove(path)
            except OSError:
                pass
            failed[cls] = (key, res, out)
    for cls, (key, res, out) in failed.items():
        agg.harness.append((key, {
            'verdict': 'HARNESS', 'seed': res['seed'],
            'error': f'{tried[cls]} minimised plan(s) of class {cls} did '
                     'not reproduce in a fresh process (state shared '
                     'between runs of one worker process, or simulator '
                     'nondeterminism)\n' + out}))
        agg.verdicts['HARNESS'] += 1
    if len(agg.unconfirmed) >= 3:
        # first executions failed but the same plans pass from a clean
        # state: library state leaks from one run of a worker into the next
        # (or the simulator is nondeterministic).  Not a replayable
        # violation; reported as a harness error so that it is never a pass.
        k0, r0 = agg.unconfirmed[0]
        agg.harness.append((k0, {
            'verdict': 'HARNESS', 'seed': r0.get('seed'),
            'error': f'{len(agg.unconfirmed)} first executions reported '
                     f'{r0["unconfirmed"]["invariant"]}['
                     f'{r0["unconfirmed"]["subject"]}] but the same plans '
                     'do not fail when executed from a clean process state: '
                     'state shared between runs of one worker process'}))
        agg.verdicts['HARNESS'] += 1
    nslow = agg.verdicts.get('SLOW', 0)
    if nslow > max(3, agg.evaluations // 200):
        # abandoning a few pathologically slow runs is bookkeeping;
        # abandoning many would mean the batch explored less than it says
        agg.harness.append((agg.slow[0][0], {
            'verdict': 'HARNESS', 'seed': agg.slow[0][1],
            'error': f'{nslow} of {agg.evaluations} runs were abandoned as '
                     'too slow'}))
        agg.verdicts['HARNESS'] += 1
    if fidelity and fidelity.get('mismatches'):
        # the real pool disagrees with the serial path: a genuine violation
        # of schedule independence observed on an uncontrolled schedule
        os.makedirs(os.path.join(VERIF, 'replays'), exist_ok=True)
        path = os.path.join(VERIF, 'replays', f'{pid}-fidelity.json')
        with open(path, 'w') as fh:
            json.dump(fidelity, fh, indent=1)
        lines.append(f'VIOLATION property={pid} replay={path}')
        lines.append('  real spawn pool result differs from the serial '
                     'path: ' + fidelity['mismatches'][0][:300])
        exit_code = 1
    if agg.harness and exit_code == 0:
        exit_code = 2
    for key, res in agg.harness[:5]:
        lines.append(f'HARNESS-ERROR property={pid} machine={key} '
                     f'seed={res.get("seed")}')
        lines.append('  ' + (res.get('error') or '').strip()[-1500:])

    # --- evidence ---------------------------------------------------------
    machine = get_machine(VARIANTS[pid][0][0])
    real, stub, rules = [], [], []
    for key, _ in VARIANTS[pid]:
        m = get_machine(key)
        for c in m.real_components:
            if c not in real:
                real.append(c)
        for c in m.stub_components:
            if c not in stub:
                stub.append(c)
        if m.rule not in rules:
            rules.append(m.rule)
    ev = {
        'property_id': pid,
        'tier': tier,
        'seed': int(base_seed),
        'level': 'exploration',
        'coverage': {
            'evaluations': agg.evaluations,
            'distinct_nontrivial': len(agg.sigs),
            'rule': ' | '.join(rules),
            'samples': agg.samples or [{'note': 'no OK run recorded'}],
            'runs_per_hour': round(agg.evaluations / max(wall, 1e-9) * 3600),
            'steps_total': agg.steps,
            'sim_time_s': round(agg.sim_time, 3),
            'faults_fired': dict(sorted(agg.faults.items())),
            'probes': dict(sorted(agg.probes.items())),
            'histograms': agg.extra,
            'verdicts': agg.verdicts,
            'by_variant': agg.by_variant,
            'seeds': f'blake2b("{base_seed}:<machine>:{{i}}") for i in '
                     f'0..runs-1 per variant (see by_variant.runs)',
            'real_components': real,
            'stub_components': stub,
            'known_findings_matched': {k: len(v) for k, v in
                                       agg.known.items()},
            'workers': workers,
            'history_length_scale': 1.0 if tier == 'quick' else 2.0,
            'fidelity_real_pool': fidelity,
        },
        'assumptions': ASSUMPTIONS.get(pid, []),
        'wall_s': round(wall, 2),
        'violations': sum(1 for ln in lines if ln.startswith('VIOLATION')),
    }
    out_dir = out_dir or os.path.join(VERIF, 'evidence')
    os.makedirs(out_dir, exist_ok=True)
    with open(os.path.join(out_dir, f'{pid}.json'), 'w') as fh:
        json.dump(ev, fh, indent=1, sort_keys=True, default=str)

    print(f'[{pid}] tier={tier} seed={base_seed} runs={agg.evaluations} '
          f'steps={agg.steps} distinct={len(agg.sigs)} '
          f'verdicts={agg.verdicts} wall={wall:.1f}s')
    print(f'[{pid}] faults_fired={dict(sorted(agg.faults.items()))}')
    for ln in lines:
        print(ln)
    return exit_code


ASSUMPTIONS = {
    'C06': ['SimExecutor models CPython 3.12 ProcessPoolExecutor semantics '
            '(FIFO dispatch, BrokenProcessPool on every unfinished future, '
            'as_completed ordering); validated against the real spawn pool '
            'only in the thorough fidelity runs',
            'numpy, scipy.ndimage, skimage watershed and pickle are trusted'],
}
