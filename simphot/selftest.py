"""Self-tests of the simulator: determinism, sensitivity (source mutants).

  check selftest --fast            imports + 8-seed determinism smoke per machine
  check selftest determinism [N]   N seeds per machine, twice in different
                                   processes, at 4 and 16 workers, and once in a
                                   fresh interpreter under another PYTHONHASHSEED
  check selftest mutants [ID ...]  apply each source mutant to a scratch copy
                                   of /repo/photutils and demand a VIOLATION
"""

from __future__ import annotations

import json
import multiprocessing as mp
import os
import shutil
import subprocess
import sys
import tempfile
import time
from concurrent.futures import ProcessPoolExecutor

from simphot import kernel, runner
from simphot.kernel import VERIF, derive


def _digests(args):
    key, base, indices = args
    m = runner.get_machine(key)
    out = {}
    for res in kernel.run_chunk(m, base, indices, 100, [], 0, 0, 600,
                                machine_key=key):
        out[res['index']] = (res['verdict'], res['digest'], res['steps'])
    return out


def all_keys():
    keys = []
    for pid, variants in runner.VARIANTS.items():
        for key, _ in variants:
            try:
                runner.get_machine(key)
            except (ImportError, KeyError):
                continue
            keys.append(key)
    return keys


def digests_for(key, n, workers, base=12345):
    runner.warm_imports()
    runner.warm_run(key)
    ctx = mp.get_context('fork')
    idx = list(range(n))
    chunks = [idx[i::workers] for i in range(workers)]
    out = {}
    with ProcessPoolExecutor(max_workers=workers, mp_context=ctx) as ex:
        for d in ex.map(_digests, [(key, base, c) for c in chunks if c]):
            out.update(d)
    return out


def determinism(n=64, fresh=True, keys=None, verbose=True):
    bad = 0
    keys = keys or all_keys()
    for key in keys:
        t0 = time.time()
        a = digests_for(key, n, 4)
        b = digests_for(key, n, 16)
        diffs = [i for i in a if a[i] != b[i]]
        harness = [i for i in a if a[i][0] == 'HARNESS']
        c_diffs = []
        if fresh:
            env = dict(os.environ)
            env['SIMPHOT_HASHSEED'] = '12345'
            env['PYTHONHASHSEED'] = '12345'
            p = subprocess.run(
                [sys.executable, os.path.join(VERIF, 'check'), 'selftest',
                 '_digests', key, str(n)], env=env, capture_output=True,
                text=True, timeout=3600)
            try:
                c = {int(k): tuple(v) for k, v in
                     json.loads(p.stdout.strip().splitlines()[-1]).items()}
                c_diffs = [i for i in a if tuple(a[i]) != c[i]]
            except Exception as e:  # noqa: BLE001
                print(f'  fresh-interpreter run failed: {e!r}\n{p.stdout[-800:]}'
                      f'\n{p.stderr[-800:]}')
                c_diffs = [-1]
        ok = not diffs and not c_diffs and not harness
        if verbose or not ok:
            print(f'determinism {key}: n={n} 4-vs-16-workers diffs={diffs[:5]} '
                  f'hashseed diffs={c_diffs[:5]} harness={harness[:5]} '
                  f'({time.time() - t0:.1f}s) {"ok" if ok else "FAIL"}')
        bad += 0 if ok else 1
    return bad


# --------------------------------------------------------------------------
# source mutants: (property, name, file, old, new)
# --------------------------------------------------------------------------
MUTANTS = [
    ('C06', 'store_in_completion_order', 'segmentation/deblend.py',
     "                    results[idx] = future.result()",
     "                    results[sum(r is not None for r in results)] = "
     "future.result()"),
    ('C06', 'merge_in_completion_order', 'segmentation/deblend.py',
     "                    results[idx] = future.result()\n",
     "                    results[idx] = future.result()\n"
     "                    futures_dict.setdefault('_order', []).append(idx)\n"
     "        _o = futures_dict.pop('_order', [])\n"
     "        labels = labels[_o]\n"
     "        all_source_slices = [all_source_slices[i] for i in _o]\n"
     "        results = [results[i] for i in _o]\n"),
    ('C06', 'swallow_worker_exception', 'segmentation/deblend.py',
     "                    results[idx] = future.result()",
     "                    try:\n"
     "                        results[idx] = future.result()\n"
     "                    except Exception:\n"
     "                        results[idx] = (None, {})"),
    ('C06', 'worker_scribbles_on_cutout', 'segmentation/deblend.py',
     "        self.segment_mask = segment_data == label\n",
     "        self.segment_mask = segment_data == label\n"
     "        if segment_data.flags.writeable:\n"
     "            segment_data[~self.segment_mask] = 0\n"),
    ('C06', 'drop_first_task_when_finishing_last', 'segmentation/deblend.py',
     "                    results[idx] = future.result()",
     "                    results[idx] = future.result()\n"
     "                    if (idx == 0 and len(labels) > 2 and all(\n"
     "                            r is not None for r in results)):\n"
     "                        results[0] = (None, {})"),
    ('C06', 'relabel_map_not_applied_to_map', 'segmentation/deblend.py',
     "            deblend_label_map = _update_deblend_label_map(deblend_label_map,\n"
     "                                                          relabel_map)\n",
     "            pass\n"),
    ('C05', 'reassign_without_cache_reset', 'segmentation/core.py',
     "        data_new = relabel_map[self.data]\n"
     "        self._reset_lazyproperties()  # reset all cached properties\n"
     "        self._data = data_new  # use _data to avoid validation\n"
     "        self._update_deblend_label_map(relabel_map)\n",
     "        data_new = relabel_map[self.data]\n"
     "        _keep = self.__dict__.get('areas')\n"
     "        self._reset_lazyproperties()  # reset all cached properties\n"
     "        if _keep is not None:\n"
     "            self.__dict__['areas'] = _keep\n"
     "        self._data = data_new  # use _data to avoid validation\n"
     "        self._update_deblend_label_map(relabel_map)\n"),
    ('C05', 'relabel_keeps_max_label', 'segmentation/core.py',
     "        self.__dict__['labels'] = new_labels\n",
     "        self.__dict__['labels'] = new_labels\n"
     "        self.__dict__['max_label'] = len(new_label_map) - 1\n"),
    ('C05', 'labels_from_raw_slices_without_none_filter',
     'segmentation/core.py',
     "                if slc is not None:\n                    labels.append(label)",
     "                labels.append(label)"),
    ('C05', 'partial_overlap_inverted', 'segmentation/core.py',
     "        if not partial_overlap:\n            interior_labels",
     "        if partial_overlap:\n            interior_labels"),
    ('C05', 'data_setter_keeps_deblend_map', 'segmentation/core.py',
     "        self.__dict__['_deblend_label_map'] = {}  # reset deblended labels",
     "        self.__dict__.setdefault('_deblend_label_map', {})"),
    ('C05', 'relabel_consecutive_ignores_start_label', 'segmentation/core.py',
     "        if ((self.labels[0] == start_label)\n",
     "        if ((self.labels[0] == 1)\n"),
    ('C05', 'relabel_keeps_stale_slices_after_reassign', 'segmentation/core.py',
     "        self._reset_lazyproperties()  # reset all cached properties\n"
     "        self._data = data_new  # use _data to avoid validation\n"
     "        self._update_deblend_label_map(relabel_map)\n",
     "        _sl = self.__dict__.get('slices', None)\n"
     "        self._reset_lazyproperties()  # reset all cached properties\n"
     "        self._data = data_new  # use _data to avoid validation\n"
     "        if _sl is not None and not relabel and np.all(np.asarray(new_label) != 0):\n"
     "            self.__dict__['slices'] = _sl\n"
     "        self._update_deblend_label_map(relabel_map)\n"),
    ('C08', 'private_iterable_not_kept_iterable', 'segmentation/catalog.py',
     "                        val = value[:, np.newaxis][index]\n"
     "                    else:\n"
     "                        val = [value[index]]",
     "                        val = value[index]\n"
     "                    else:\n"
     "                        val = [value[index]]"),
    ('C08', 'fancy_index_on_list_reversed', 'segmentation/catalog.py',
     "                val = (np.array([*value, None],\n"
     "                                dtype=object)[:-1][index]).tolist()",
     "                val = (np.array([*value, None],\n"
     "                                dtype=object)[:-1][index]).tolist()[::-1]"),
    ('C08', 'one_cached_list_shared_not_sliced', 'segmentation/catalog.py',
     "            if np.isscalar(value):\n                continue\n\n            try:\n                # keep _<attr>",
     "            if np.isscalar(value):\n                continue\n"
     "            if key == 'bbox' and not newcls.isscalar:\n"
     "                newcls.__dict__[key] = value\n                continue\n\n"
     "            try:\n                # keep _<attr>"),
    ('C08', 'extras_list_shared_again', 'segmentation/catalog.py',
     "        newcls._extra_properties = self._extra_properties.copy()\n",
     "        newcls._extra_properties = self._extra_properties\n"),
    ('C08', 'detection_cat_not_sliced', 'segmentation/catalog.py',
     "            setattr(newcls, attr, getattr(self, attr)[index])\n\n        attr = '_slices'",
     "            setattr(newcls, attr, getattr(self, attr))\n\n        attr = '_slices'"),
    ('C08', 'aperstats_local_bkg_not_sliced', 'aperture/stats.py',
     "        keys.add('_local_bkg')  # iterable defined in __init__\n",
     ""),
    ('C08', 'aperstats_ids_not_sliced', 'aperture/stats.py',
     "        attrs = ('aperture', '_ids')\n",
     "        attrs = ('aperture',)\n        newcls._ids = self._ids\n"),
    ('C08', 'scalar_centroid_quad_fallback_reverted', 'segmentation/catalog.py',
     "            if self.isscalar:\n"
     "                cutout_centroid = cutout_centroid[np.newaxis, :]\n"
     "            centroid_quad[nan_mask]",
     "            centroid_quad[nan_mask]"),
    ('C09', 'bkg_stats_deleted_before_filter', 'background/background_2d.py',
     "        data = self._filter_grid(data)\n"
     "        if ('background_rms_mesh' in self.__dict__\n"
     "                or self.filter_threshold is None):\n"
     "            self._bkg_stats = None  # delete to save memory\n"
     "        return self._apply_units(data)\n",
     "        if ('background_rms_mesh' in self.__dict__\n"
     "                or self.filter_threshold is None):\n"
     "            self._bkg_stats = None  # delete to save memory\n"
     "        return self._apply_units(self._filter_grid(data))\n"),
    ('C09', 'reset_results_forgets_group_results', 'psf/photometry.py',
     "        self.fit_info = defaultdict(list)\n"
     "        self._group_results = defaultdict(list)\n\n"
     "    def __repr__(self):",
     "        self.fit_info = defaultdict(list)\n\n"
     "    def __repr__(self):"),
    ('C09', 'aperture_setter_without_cache_reset', 'aperture/attributes.py',
     "            value = float(value)\n"
     "        # no need to reset if not already in the instance dict\n"
     "        if self.name in instance.__dict__:\n"
     "            self._reset_lazyproperties(instance)\n",
     "            value = float(value)\n"),
    ('C09', 'positions_setter_without_cache_reset', 'aperture/attributes.py',
     "        value = self._validate(value)  # np.ndarray\n"
     "        # no need to reset if not already in the instance dict\n"
     "        if self.name in instance.__dict__:\n"
     "            self._reset_lazyproperties(instance)\n",
     "        value = self._validate(value)  # np.ndarray\n"),
    ('C09', 'unnormalize_keeps_normalization_value', 'profiles/core.py',
     "                                          * self.normalization_value)\n"
     "        self.normalization_value = 1.0\n",
     "                                          * self.normalization_value)\n"),
    ('C09', 'starfinder_caches_convolved_image', 'detection/starfinder.py',
     "        convolved_data = _filter_data(data, kernel, mode='constant',\n"
     "                                      fill_value=0.0,\n"
     "                                      check_normalization=False)\n",
     "        if getattr(self, '_conv', None) is None or self._conv.shape != data.shape:\n"
     "            self._conv = _filter_data(data, kernel, mode='constant',\n"
     "                                      fill_value=0.0,\n"
     "                                      check_normalization=False)\n"
     "        convolved_data = self._conv\n"),
    ('C09', 'grouper_dropped_after_group_id_call', 'psf/photometry.py',
     "        grouper = self.grouper\n"
     "        if 'group_id' in init_params.colnames:\n"
     "            grouper = None\n",
     "        if 'group_id' in init_params.colnames:\n"
     "            self.grouper = None\n"
     "        grouper = self.grouper\n"),
    ('C09', 'ellipse_sma_written_back_to_geometry', 'isophote/ellipse.py',
     "        # sort list of isophotes according to sma\n"
     "        isophote_list.sort()\n",
     "        # sort list of isophotes according to sma\n"
     "        isophote_list.sort()\n"
     "        self._geometry.sma = isophote_list[-1].sma\n"),
    ('C09', 'normalize_skips_uncached_profile_error', 'profiles/core.py',
     "            self.__dict__['profile_error'] = self.profile_error / normalization\n",
     "            if 'profile_error' in self.__dict__:\n"
     "                self.__dict__['profile_error'] = self.profile_error / normalization\n"),
    ('C19', 'unnormalize_skips_profile_error', 'profiles/core.py',
     "        self.__dict__['profile_error'] = (self.profile_error\n"
     "                                          * self.normalization_value)\n"
     "        self.normalization_value = 1.0\n",
     "        self.normalization_value = 1.0\n"),
    ('C19', 'normalization_value_not_accumulated', 'profiles/core.py',
     "            self.normalization_value *= normalization\n",
     "            self.normalization_value = normalization\n"),
    ('C19', 'area_is_analytic_aperture_area', 'profiles/core.py',
     "                area = aperture.area_overlap(self.data, mask=self.mask,\n"
     "                                             method=self.method,\n"
     "                                             subpixels=self.subpixels)\n",
     "                area = aperture.area\n"),
    ('C19', 'error_plain_difference', 'profiles/radial_profile.py',
     "        return np.sqrt(np.diff(self._photometry[1] ** 2))",
     "        return np.diff(self._photometry[1])"),
    ('C19', 'radius_at_ee_drops_last_monotone_sample',
     'profiles/curve_of_growth.py',
     "            radius = radius[0:idx + 1]\n"
     "            profile = profile[0:idx + 1]\n",
     "            radius = radius[0:idx]\n"
     "            profile = profile[0:idx]\n"),
    ('C19', 'nonfinite_not_masked_when_mask_given', 'profiles/core.py',
     "            mask = mask | badmask  # all masked pixels (input mask unchanged)\n",
     "            pass\n"),
    ('C19', 'data_profile_cached_unscaled', 'profiles/radial_profile.py',
     "        return self._data_profile[1] / self.normalization_value\n",
     "        if '_dp' not in self.__dict__:\n"
     "            self.__dict__['_dp'] = (self._data_profile[1]\n"
     "                                    / self.normalization_value)\n"
     "        return self.__dict__['_dp']\n"),
    ('C13', 'cache_keyed_by_x_only', 'psf/gridded_models.py',
     "        xypos = tuple(self.grid_xypos[grid_idx])\n",
     "        xypos = (self.grid_xypos[grid_idx][0],)\n"),
    ('C13', 'weights_order_swapped', 'psf/gridded_models.py',
     "        return np.array([(x1 - xi) * (y1 - yi), (xi - x0) * (y1 - yi),\n"
     "                         (x1 - xi) * (yi - y0), (xi - x0) * (yi - y0)]) / norm",
     "        return np.array([(x1 - xi) * (y1 - yi), (x1 - xi) * (yi - y0),\n"
     "                         (xi - x0) * (y1 - yi), (xi - x0) * (yi - y0)]) / norm"),
    ('C13', 'no_clip_outside_grid', 'psf/gridded_models.py',
     "        xi = np.clip(xi, x0, x1)\n        yi = np.clip(yi, y0, y1)\n",
     ""),
    ('C13', 'searchsorted_right', 'psf/gridded_models.py',
     "        xidx = np.searchsorted(self._xgrid, x) - 1\n",
     "        xidx = np.searchsorted(self._xgrid, x, side='right')\n"),
    ('C13', 'cache_remembers_last_cell_values', 'psf/gridded_models.py',
     "        grid_idx, grid_xy = self._find_bounding_points(x_0, y_0)\n",
     "        if getattr(self, '_last_cell', None) is None:\n"
     "            self._last_cell = self._find_bounding_points(x_0, y_0)\n"
     "        grid_idx, grid_xy = self._last_cell\n"),
    ('C13', 'image_oversampling_axes_swapped', 'psf/image_models.py',
     "        xi = self.oversampling[1] * (np.asarray(x, dtype=float) - x_0)\n"
     "        yi = self.oversampling[0] * (np.asarray(y, dtype=float) - y_0)\n"
     "        xi += self._origin[0]",
     "        xi = self.oversampling[0] * (np.asarray(x, dtype=float) - x_0)\n"
     "        yi = self.oversampling[1] * (np.asarray(y, dtype=float) - y_0)\n"
     "        xi += self._origin[0]"),
    ('C13', 'image_interpolator_cached_with_flux', 'psf/image_models.py',
     "        evaluated_model = flux * self.interpolator(xi, yi, grid=False)\n\n"
     "        if self.fill_value is not None:\n"
     "            # set pixels that are outside the input pixel grid to the\n"
     "            # fill_value to avoid extrapolation; these bounds match the\n"
     "            # RegularGridInterpolator bounds\n"
     "            ny, nx = self.data.shape\n",
     "        if '_flux0' not in self.__dict__:\n"
     "            self.__dict__['_flux0'] = flux\n"
     "        evaluated_model = self.__dict__['_flux0'] * self.interpolator(xi, yi, grid=False)\n\n"
     "        if self.fill_value is not None:\n"
     "            ny, nx = self.data.shape\n"),
    ('C10', 'centroid_com_no_copy', 'centroids/core.py',
     "    # preserve input data - which should be a small cutout image\n"
     "    data = data.copy()\n",
     "    data = np.asanyarray(data)\n"),
    ('C10', 'bkg2d_core_no_copy', 'background/background_2d.py',
     "        core = reshape_as_blocks(self._data[:y1, :x1].copy(), self.box_size)",
     "        core = reshape_as_blocks(self._data[:y1, :x1], self.box_size)"),
    ('C10', 'bkg2d_extra_row_no_copy', 'background/background_2d.py',
     "                row_data = self._data[y1:, :x1].copy()",
     "                row_data = self._data[y1:, :x1]"),
    ('C10', 'aperstats_cutout_no_copy', 'aperture/stats.py',
     "                cutout = (self._data[slices[0]].astype(float, copy=True)\n"
     "                          - local_bkg)",
     "                cutout = self._data[slices[0]].astype(float, copy=False)\n"
     "                cutout -= local_bkg"),
    ('C10', 'catalog_moment_cutout_no_copy', 'segmentation/catalog.py',
     "            cutout = convdata_cutout.copy()\n",
     "            cutout = convdata_cutout\n"),
    ('C10', 'total_error_no_copy', 'utils/errors.py',
     "    source_variance = data.copy()\n",
     "    source_variance = data\n"),
    ('C10', 'starfinder_cutouts_are_views', 'detection/starfinder.py',
     "            cdata = self.data[slc].copy()  # do not modify the input data\n",
     "            cdata = self.data[slc]\n"),
    ('C10', 'profile_mask_written_in_place', 'profiles/core.py',
     "            mask = mask | badmask  # all masked pixels (input mask unchanged)\n",
     "            mask |= badmask\n"),
    ('C10', 'psfphot_init_params_no_copy', 'psf/photometry.py',
     "        init_params = self._rename_init_columns(init_params.copy(),",
     "        init_params = self._rename_init_columns(init_params,"),
    ('C10', 'centroid_com_temporary_modify_restore', 'centroids/core.py',
     "    # preserve input data - which should be a small cutout image\n"
     "    data = data.copy()\n",
     "    if isinstance(data, np.ndarray) and data.flags.writeable \\\n"
     "            and type(data) is np.ndarray and data.dtype.kind == 'f':\n"
     "        _saved = data.copy()\n"
     "        _res = _centroid_com_inplace(data, mask)\n"
     "        data[...] = _saved\n"
     "        return _res\n"
     "    data = data.copy()\n"),
]


APPEND = {
    'centroid_com_temporary_modify_restore': '''


def _centroid_com_inplace(data, mask):
    # mutant helper: cleans the caller's array in place (restored by caller)
    if mask is not None and mask is not np.ma.nomask:
        mask = np.asarray(mask, dtype=bool)
        if data.shape != mask.shape:
            raise ValueError('data and mask must have the same shape.')
        data[mask] = 0.0
    badmask = ~np.isfinite(data)
    if np.any(badmask):
        data[badmask] = 0.0
    total = np.sum(data)
    if total == 0:
        return np.array((np.nan, np.nan))
    indices = np.ogrid[tuple(slice(0, i) for i in data.shape)]
    return np.array([np.sum(indices[axis] * data) / total
                     for axis in range(data.ndim)])[::-1]
''',
}


def apply_mutant(root, relfile, old, new, name=None):
    path = os.path.join(root, relfile)
    src = open(path).read()
    if src.count(old) != 1:
        raise RuntimeError(f'mutant anchor occurs {src.count(old)} times in '
                           f'{relfile}')
    src = src.replace(old, new)
    if name in APPEND:
        src += APPEND[name]
    open(path, 'w').write(src)


def run_on_copy(pid, root, budget, extra_args=()):
    env = dict(os.environ)
    env['SIMPHOT_REPO'] = os.path.join(root, 'photutils')
    evdir = os.path.join(root, 'evidence')
    cmd = [sys.executable, os.path.join(VERIF, 'check'), 'run', pid,
           '--budget', str(budget), '--evidence-dir', evdir, *extra_args]
    p = subprocess.run(cmd, env=env, capture_output=True, text=True,
                       timeout=3600)
    return p.returncode, p.stdout + p.stderr


def mutants(pids=None, budget=25):
    import fnmatch
    fails = 0
    for (pid, name, relfile, old, new) in MUTANTS:
        if pids and not any(fnmatch.fnmatch(pid, p) or fnmatch.fnmatch(
                name, p) for p in pids):
            continue
        root = tempfile.mkdtemp(prefix='simphot-mut-')
        try:
            shutil.copytree('/repo/photutils', os.path.join(root, 'photutils'),
                            ignore=shutil.ignore_patterns('__pycache__',
                                                          'tests'))
            try:
                apply_mutant(os.path.join(root, 'photutils'), relfile, old,
                             new, name)
            except RuntimeError as e:
                print(f'mutant {pid}/{name}: BROKEN-ANCHOR {e}')
                fails += 1
                continue
            t0 = time.time()
            rc, out = run_on_copy(pid, root, budget)
            vio = [ln for ln in out.splitlines() if ln.startswith(
                'VIOLATION') or ln.startswith('  ')][:2]
            ok = rc == 1
            # replay files written under /verif/replays by the mutant run
            for ln in out.splitlines():
                if ln.startswith('VIOLATION'):
                    rp = ln.split('replay=')[-1].strip()
                    if os.path.exists(rp):
                        os.remove(rp)
            print(f'mutant {pid}/{name}: rc={rc} '
                  f'{"caught" if ok else "MISSED"} ({time.time() - t0:.0f}s) '
                  f'{" | ".join(v.strip()[:160] for v in vio)}')
            if not ok:
                fails += 1
                print(out[-1500:])
        finally:
            shutil.rmtree(root, ignore_errors=True)
    return fails


def seeded(ids=None, budget=30, out_path=None):
    """Re-run every kept seeded breakage (/verif/seeded/<id>/patch.diff)
    against the current machines, on a scratch copy of /repo/photutils."""
    import fnmatch
    import glob
    fails = 0
    lines = []
    paths = [p for p in (ids or ()) if os.path.isdir(p)]
    ids = [p for p in (ids or ()) if not os.path.isdir(p)]
    dirs = sorted(glob.glob(os.path.join(VERIF, 'seeded', '*'))) \
        if (ids or not paths) else []
    for d in dirs + paths:
        meta = os.path.join(d, 'meta.json')
        if os.path.exists(meta):
            m = json.load(open(meta))
            sid, pid = m['id'], m['property']
        elif d in paths:
            # a candidate not kept yet: <PID>-<anything>/patch.diff
            sid = os.path.basename(d.rstrip('/'))
            pid = sid.split('-')[0]
        else:
            continue
        if d not in paths and ids and not any(
                fnmatch.fnmatch(sid, p) or fnmatch.fnmatch(pid, p)
                for p in ids):
            continue
        root = tempfile.mkdtemp(prefix='simphot-seeded-')
        try:
            shutil.copytree('/repo/photutils', os.path.join(root, 'photutils'),
                            ignore=shutil.ignore_patterns('__pycache__'))
            pr = subprocess.run(['patch', '-p1', '-s', '-d', root, '-i',
                                 os.path.join(d, 'patch.diff')],
                                capture_output=True, text=True)
            if pr.returncode != 0:
                line = f'seeded {sid}: patch does not apply to the ' \
                       f'current tree ({pr.stdout.strip()[:120]})'
                print(line, flush=True)
                lines.append(line)
                continue
            t0 = time.time()
            rc, out = run_on_copy(pid, root, budget)
            vio = [ln for ln in out.splitlines()
                   if ln.startswith('  ') and '[' in ln][:2]
            for ln in out.splitlines():
                if ln.startswith('VIOLATION'):
                    rp = ln.split('replay=')[-1].strip()
                    if os.path.exists(rp):
                        os.remove(rp)
            ok = rc == 1
            line = (f'seeded {sid}: rc={rc} {"caught" if ok else "MISSED"} '
                    f'({time.time() - t0:.0f}s) '
                    f'{" | ".join(v.strip()[:140] for v in vio)}')
            print(line, flush=True)
            lines.append(line)
            if not ok:
                fails += 1
                print(out[-1500:])
        finally:
            shutil.rmtree(root, ignore_errors=True)
    if out_path:
        with open(out_path, 'w') as f:
            f.write('\n'.join(lines) + '\n')
    return fails


def main(argv):
    if argv and argv[0] == '_digests':
        key, n = argv[1], int(argv[2])
        d = digests_for(key, n, 8)
        print(json.dumps({str(k): list(v) for k, v in d.items()}))
        return 0
    if not argv or argv[0] == '--fast':
        bad = determinism(n=8, fresh=False, verbose=True)
        return 2 if bad else 0
    if argv[0] == 'determinism':
        n = int(argv[1]) if len(argv) > 1 else 64
        keys = argv[2:] or None
        return 2 if determinism(n=n, fresh=True, keys=keys) else 0
    if argv[0] == 'mutants':
        return 1 if mutants(argv[1:]) else 0
    if argv[0] == 'seeded':
        return 1 if seeded(argv[1:], out_path=os.path.join(
            VERIF, 'seeded', 'REGRESSION.txt') if not argv[1:] else None) \
            else 0
    print(__doc__)
    return 2
