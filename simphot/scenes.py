"""Seeded scene builders.  Pure functions of the Rng they are given."""

from __future__ import annotations

import numpy as np

INT_DTYPES = ['int8', 'int16', 'int32', 'int64', 'uint8', 'uint16', 'uint32',
              '>i4', '>i2']       # big-endian: arrays read from FITS


def gaussians(shape, srcs):
    """Sum of elliptical Gaussians.  srcs: list of (x, y, amp, sx, sy, th)."""
    yy, xx = np.mgrid[0:shape[0], 0:shape[1]].astype(float)
    img = np.zeros(shape, float)
    for (x0, y0, amp, sx, sy, th) in srcs:
        c, s = np.cos(th), np.sin(th)
        xr = (xx - x0) * c + (yy - y0) * s
        yr = -(xx - x0) * s + (yy - y0) * c
        img += amp * np.exp(-0.5 * ((xr / sx) ** 2 + (yr / sy) ** 2))
    return img


def label_array(rng, max_side=12, dtype=None):
    """Random small label array with gaps, disconnected and border labels."""
    ny = rng.randint(3, max_side)
    nx = rng.randint(3, max_side)
    dtype = dtype or rng.pick(INT_DTYPES)
    arr = np.zeros((ny, nx), dtype=np.int64)
    mode = rng.random()
    if mode < 0.05:
        pass  # all zeros
    else:
        nlab = rng.randint(1, 7)
        # label values with gaps
        vals = sorted(rng.sample(range(1, 3 * nlab + 3), nlab))
        if rng.chance(0.15):
            hi = min(np.iinfo(dtype).max, 120)
            vals[-1] = rng.randint(max(vals[-1], hi - 5), hi)
            vals = sorted(set(vals))
        for v in vals:
            nblob = 1 if rng.chance(0.7) else rng.randint(2, 3)
            for _ in range(nblob):
                h = rng.randint(1, max(1, ny // 2))
                w = rng.randint(1, max(1, nx // 2))
                y0 = rng.randint(0, ny - h)
                x0 = rng.randint(0, nx - w)
                if rng.chance(0.5):
                    arr[y0:y0 + h, x0:x0 + w] = v
                else:
                    # ragged blob
                    m = np.array([[rng.chance(0.65) for _ in range(w)]
                                  for _ in range(h)], dtype=bool)
                    sub = arr[y0:y0 + h, x0:x0 + w]
                    sub[m] = v
        if rng.chance(0.08):
            # no background at all
            arr[arr == 0] = vals[0]
    return arr.astype(dtype)


def blend_scene(rng, nparents=None, max_side=40):
    """Image of blended Gaussian groups plus noise; returns dict with data
    (float64) and the list of group centres."""
    ny = rng.randint(18, max_side)
    nx = rng.randint(18, max_side)
    nparents = nparents or rng.randint(1, 6)
    srcs = []
    for _ in range(nparents):
        cx = rng.uniform(3, nx - 4)
        cy = rng.uniform(3, ny - 4)
        ncomp = rng.randint(1, 4)
        base_amp = rng.uniform(20, 200)
        for k in range(ncomp):
            sep = rng.uniform(0.0, 7.0)
            ang = rng.uniform(0, 2 * np.pi)
            amp = base_amp * (1.0 if k == 0 else
                              10 ** rng.uniform(-2.5, 0.0))
            sx = rng.uniform(0.8, 2.5)
            sy = sx * rng.uniform(0.5, 1.0)
            srcs.append((cx + sep * np.cos(ang), cy + sep * np.sin(ang), amp,
                         sx, sy, rng.uniform(0, np.pi)))
    img = gaussians((ny, nx), srcs)
    noise = rng.pick([0.0, 0.3, 1.0, 3.0])
    if noise:
        img = img + rng.np().normal(0, noise, img.shape)
    off = rng.pick([0.0, 0.0, -5.0, 2.0])
    img = img + off
    return {'data': img, 'srcs': srcs, 'noise': noise, 'offset': off}


def star_field(rng, shape=None, nstars=None, fwhm=None, noise=None):
    ny, nx = shape or (rng.randint(24, 48), rng.randint(24, 48))
    nstars = nstars if nstars is not None else rng.randint(1, 6)
    fwhm = fwhm or rng.uniform(2.0, 4.0)
    sig = fwhm / 2.3548
    srcs = []
    for _ in range(nstars):
        srcs.append((rng.uniform(4, nx - 5), rng.uniform(4, ny - 5),
                     rng.uniform(50, 500), sig, sig, 0.0))
    img = gaussians((ny, nx), srcs)
    noise = rng.pick([0.0, 0.5, 2.0]) if noise is None else noise
    if noise:
        img = img + rng.np().normal(0, noise, img.shape)
    return {'data': img, 'srcs': srcs, 'fwhm': fwhm, 'noise': noise}
