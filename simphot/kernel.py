"""Simulator kernel: seeded streams, plans, executor, shrinker, batch runner.

Vocabulary
----------
plan     JSON-able dict {"machine", "seed", "cfg", "scene", "ops"}.  Executing
         a plan needs no PRNG.
machine  object implementing the Machine interface below (one per property).
run      generate-and-execute of one plan from one integer seed.
verdict  OK | VIOLATION | KNOWN | HARNESS.
"""

from __future__ import annotations

import base64
import hashlib
import io
import json
import os
import random
import sys
import time
import traceback
import warnings

import numpy as np

VERIF = os.path.dirname(os.path.dirname(os.path.abspath(__file__)))


# --------------------------------------------------------------------------
# seeds and streams
# --------------------------------------------------------------------------
def derive(*parts) -> int:
    """Derive a 64-bit integer from the parts (never uses Python hash())."""
    h = hashlib.blake2b(':'.join(str(p) for p in parts).encode(),
                        digest_size=8)
    return int.from_bytes(h.digest(), 'big')


class Rng(random.Random):
    """random.Random plus a few helpers; named sub-streams via derive()."""

    def __init__(self, seed):
        super().__init__(seed)
        self._seed0 = seed

    def sub(self, name) -> 'Rng':
        return Rng(derive(self._seed0, name))

    def chance(self, p) -> bool:
        return self.random() < p

    def pick(self, seq):
        return seq[self.randrange(len(seq))]

    def wpick(self, items, weights):
        return self.choices(items, weights=weights, k=1)[0]

    def np(self) -> np.random.Generator:
        return np.random.default_rng(self.getrandbits(63))


# --------------------------------------------------------------------------
# JSON encoding of arrays (scenes are stored inline in plans)
# --------------------------------------------------------------------------
def enc(arr) -> dict:
    arr = np.asarray(arr)
    buf = io.BytesIO()
    np.save(buf, arr, allow_pickle=False)
    return {'__npy__': base64.b64encode(buf.getvalue()).decode('ascii'),
            'shape': list(arr.shape), 'dtype': str(arr.dtype)}


def dec(obj):
    if isinstance(obj, dict) and '__npy__' in obj:
        return np.load(io.BytesIO(base64.b64decode(obj['__npy__'])),
                       allow_pickle=False)
    return obj


def is_enc(obj) -> bool:
    return isinstance(obj, dict) and '__npy__' in obj


def jsonable(o):
    """Convert numpy scalars etc. to plain JSON types (used for ops)."""
    if isinstance(o, dict):
        return {str(k): jsonable(v) for k, v in o.items()}
    if isinstance(o, (list, tuple)):
        return [jsonable(v) for v in o]
    if isinstance(o, np.ndarray):
        return enc(o)
    if isinstance(o, (np.integer,)):
        return int(o)
    if isinstance(o, (np.floating,)):
        return float(o)
    if isinstance(o, (np.bool_,)):
        return bool(o)
    return o


def summarize(o, depth=0):
    """Plan -> human-readable sample (arrays replaced by their summary)."""
    if is_enc(o):
        a = dec(o)
        if a.size <= 64:
            return {'array': a.tolist(), 'dtype': str(a.dtype)}
        return {'array_shape': list(a.shape), 'dtype': str(a.dtype),
                'sha': hashlib.sha256(a.tobytes()).hexdigest()[:12]}
    if isinstance(o, dict):
        return {k: summarize(v, depth + 1) for k, v in o.items()}
    if isinstance(o, list):
        return [summarize(v, depth + 1) for v in o]
    return o


# --------------------------------------------------------------------------
# violations
# --------------------------------------------------------------------------
class Violation(Exception):
    """The oracle was falsified."""

    def __init__(self, invariant, subject, detail=''):
        super().__init__(f'{invariant}[{subject}]: {detail}')
        self.invariant = invariant
        self.subject = str(subject)
        self.detail = str(detail)[:2000]


class Inapplicable(Exception):
    """An op of a (shrunk) plan cannot be interpreted in the current state.

    Never raised while generating; during shrinking it simply makes the
    candidate plan skip the op.
    """


class Raised:
    """Value wrapper: the system under test raised this exception."""

    def __init__(self, exc):
        self.exc = exc
        self.type = type(exc).__name__

    def __repr__(self):
        return f'Raised({self.type}: {str(self.exc)[:200]})'


def call(fn, *args, **kwargs):
    """Call code under test; exceptions become values.

    MemoryError/RecursionError/KeyboardInterrupt propagate only when they
    are not part of an injected fault (handled by the caller).
    """
    try:
        with warnings.catch_warnings():
            warnings.simplefilter('ignore')
            return fn(*args, **kwargs)
    except Exception as exc:  # noqa: BLE001 - exceptions are data here
        return Raised(exc)


# --------------------------------------------------------------------------
# run state
# --------------------------------------------------------------------------
class Stats:
    def __init__(self):
        self.faults = {}
        self.probes = {}
        self.steps = 0
        self.sim_time = 0.0
        self.sigs = set()
        self.extra = {}

    def fault(self, kind, n=1):
        self.faults[kind] = self.faults.get(kind, 0) + n

    def probe(self, name, n=1):
        self.probes[name] = self.probes.get(name, 0) + n

    def sig(self, item):
        self.sigs.add(item if isinstance(item, str) else repr(item))


class Trace:
    """Running digest of everything observed in a run (for determinism)."""

    def __init__(self):
        self._h = hashlib.sha256()
        self.n = 0

    def add(self, *items):
        for it in items:
            if isinstance(it, (bytes, bytearray)):
                self._h.update(it)
            else:
                self._h.update(repr(it).encode())
            self._h.update(b'|')
        self.n += 1

    def hexdigest(self):
        return self._h.hexdigest()


class Held:
    """Values the system under test has returned and the caller still
    holds (references, not copies).  Whatever happens later - normalising,
    re-reading, other calls - an array that was handed out must not change
    under the caller's feet."""

    def __init__(self, limit=24):
        self.items = []
        self.limit = limit

    def add(self, name, value):
        from simphot.compare import digest
        if isinstance(value, Raised) or value is None:
            return
        if len(self.items) >= self.limit:
            self.items.pop(0)
        self.items.append((name, value, digest(value)))

    def check(self, where=''):
        from simphot.compare import digest
        for name, value, d0 in self.items:
            if digest(value) != d0:
                raise Violation('returned_value_changed', name,
                                f'a value returned earlier by {name} was '
                                f'modified in place {where}')


class Machine:
    """Interface of a simulation machine (one per claimed property)."""

    pid = 'C00'
    name = 'base'
    max_ops = 30
    real_components = []
    stub_components = []
    rule = ''

    # --- generation -----------------------------------------------------
    def make_cfg(self, rng: Rng, avoid: set) -> dict:
        return {}

    def make_scene(self, rng: Rng, cfg: dict) -> dict:
        return {}

    def next_op(self, rng: Rng, st) -> dict | None:
        return None

    # --- execution ------------------------------------------------------
    def start(self, plan: dict, stats: Stats, trace: Trace):
        raise NotImplementedError

    def step(self, st, op: dict) -> None:
        raise NotImplementedError

    def finish(self, st) -> None:
        return None

    def signature(self, st) -> str:
        return ''

    def nontrivial(self, plan, st) -> bool:
        return len(plan['ops']) >= 2

    # --- shrinking (optional) -------------------------------------------
    def simpler_ops(self, op: dict):
        return ()

    def simpler_scenes(self, plan: dict):
        return ()

    # --- known findings: which generator switches avoid a finding --------
    known_triggers = {}


# --------------------------------------------------------------------------
# executing plans
# --------------------------------------------------------------------------
def _mk_result(verdict, plan, stats, trace, viol=None, err=None, sig='',
               nontrivial=False):
    return {
        'verdict': verdict,
        'seed': plan.get('seed'),
        'machine': plan.get('machine'),
        'nops': len(plan.get('ops', [])),
        'steps': stats.steps,
        'faults': stats.faults,
        'probes': stats.probes,
        'sim_time': stats.sim_time,
        'sigs': sorted(stats.sigs),
        'extra': stats.extra,
        'sig': sig,
        'nontrivial': nontrivial,
        'digest': trace.hexdigest(),
        'violation': viol,
        'error': err,
    }


def execute(machine: Machine, plan: dict, rng: Rng | None = None,
            max_ops: int | None = None) -> dict:
    """Execute a plan.  With ``rng`` the ops are generated on the fly and
    appended to ``plan['ops']`` (generation == first execution); without it
    the recorded ops are replayed.
    """
    stats = Stats()
    trace = Trace()
    trace.add('seed', plan.get('seed'), json.dumps(plan.get('cfg', {}),
                                                   sort_keys=True))
    viol = None
    st = None
    nops = max_ops if max_ops is not None else machine.max_ops
    try:
        with warnings.catch_warnings():
            warnings.simplefilter('ignore')
            with np.errstate(all='ignore'):
                st = machine.start(plan, stats, trace)
                if rng is not None:
                    plan['ops'] = []
                    opr = rng.sub('ops')
                    while len(plan['ops']) < nops:
                        op = machine.next_op(opr, st)
                        if op is None:
                            break
                        op = jsonable(op)
                        plan['ops'].append(op)
                        stats.steps += 1
                        trace.add('op', json.dumps(_op_digest(op),
                                                   sort_keys=True))
                        machine.step(st, op)
                else:
                    for op in plan['ops']:
                        stats.steps += 1
                        trace.add('op', json.dumps(_op_digest(op),
                                                   sort_keys=True))
                        try:
                            machine.step(st, op)
                        except Inapplicable:
                            stats.probe('inapplicable_op')
                machine.finish(st)
    except Violation as v:
        viol = {'invariant': v.invariant, 'subject': v.subject,
                'detail': v.detail, 'step': stats.steps}
    except Inapplicable as e:
        if rng is not None:
            return _mk_result('HARNESS', plan, stats, trace,
                              err='Inapplicable during generation: '
                              + traceback.format_exc())
        # scene no longer supports the plan: treat as OK (no violation)
        stats.probe('inapplicable_scene')
        return _mk_result('OK', plan, stats, trace)
    except Exception:  # noqa: BLE001
        return _mk_result('HARNESS', plan, stats, trace,
                          err=traceback.format_exc())
    sig = ''
    nontriv = False
    if st is not None:
        try:
            sig = machine.signature(st)
            nontriv = bool(machine.nontrivial(plan, st))
        except Exception:  # noqa: BLE001
            return _mk_result('HARNESS', plan, stats, trace,
                              err=traceback.format_exc())
    if viol is not None:
        return _mk_result('VIOLATION', plan, stats, trace, viol=viol,
                          sig=sig, nontrivial=nontriv)
    return _mk_result('OK', plan, stats, trace, sig=sig, nontrivial=nontriv)


def _op_digest(op):
    """Op with inline arrays replaced by their hash (for the trace)."""
    if is_enc(op):
        return hashlib.sha256(op['__npy__'].encode()).hexdigest()[:16]
    if isinstance(op, dict):
        return {k: _op_digest(v) for k, v in op.items()}
    if isinstance(op, list):
        return [_op_digest(v) for v in op]
    return op


def new_plan(machine: Machine, seed: int, avoid=()) -> tuple[dict, Rng]:
    rng = Rng(seed)
    cfg = machine.make_cfg(rng.sub('cfg'), set(avoid))
    cfg = jsonable(cfg)
    scene = jsonable(machine.make_scene(rng.sub('scene'), cfg))
    plan = {'machine': machine.name, 'property': machine.pid, 'seed': seed,
            'cfg': cfg, 'scene': scene, 'ops': []}
    return plan, rng


def run_seed(machine: Machine, seed: int, avoid=(),
             ops_scale: float = 1.0) -> tuple[dict, dict]:
    """Generate and execute the run decided by ``seed`` (and, for the length
    of the history only, by ``ops_scale``: the thorough tier explores
    histories twice as long from the same seeds)."""
    try:
        plan, rng = new_plan(machine, seed, avoid)
    except Exception:  # noqa: BLE001
        plan = {'machine': machine.name, 'property': machine.pid,
                'seed': seed, 'cfg': {}, 'scene': {}, 'ops': []}
        return plan, _mk_result('HARNESS', plan, Stats(), Trace(),
                                err=traceback.format_exc())
    res = execute(machine, plan, rng=rng,
                  max_ops=max(1, int(round(machine.max_ops * ops_scale))))
    return plan, res


MACHINE_FACTORY = None      # set by simphot.runner (key -> Machine)


class SoftTimeout(BaseException):
    """A run used up its soft wall-clock allowance (SIGALRM).  It is
    abandoned and counted as SLOW: how long the library takes is not what the
    checks decide, and one pathological scene must not take the batch down.
    (BaseException: neither call() nor the code under test swallows it.)"""


def run_seed_soft(machine, seed, avoid, ops_scale, soft_s):
    """run_seed under a soft timeout; the hard one (faulthandler, process
    exit) stays armed around it for loops that never return to bytecode."""
    import signal

    def on_alarm(signum, frame):
        raise SoftTimeout()
    old = signal.signal(signal.SIGALRM, on_alarm)
    signal.alarm(max(1, int(soft_s)))
    try:
        return run_seed(machine, seed, avoid, ops_scale)
    except SoftTimeout:
        plan = {'machine': machine.name, 'property': machine.pid,
                'seed': seed, 'cfg': {}, 'scene': {}, 'ops': []}
        res = _mk_result('SLOW', plan, Stats(), Trace(),
                         err=f'run of seed {seed} abandoned after '
                             f'{int(soft_s)} s of wall clock')
        return plan, res
    finally:
        signal.alarm(0)
        signal.signal(signal.SIGALRM, old)


def _write_frame(fd, obj):
    import pickle
    import struct
    blob = pickle.dumps(obj, protocol=4)
    data = struct.pack('<Q', len(blob)) + blob
    while data:
        n = os.write(fd, data)
        data = data[n:]


def _read_exact(fd, n):
    buf = b''
    while len(buf) < n:
        b = os.read(fd, n - len(buf))
        if not b:
            return None
        buf += b
    return buf


def _read_frame(fd):
    import pickle
    import struct
    head = _read_exact(fd, 8)
    if head is None:
        return None
    (n,) = struct.unpack('<Q', head)
    blob = _read_exact(fd, n)
    return None if blob is None else pickle.loads(blob)


class Zygote:
    """A child forked from this process *before it ever executed library
    code*, which executes plans on request, each in a fresh grandchild.

    An execution through the zygote therefore starts from exactly the state
    a replay process has after the standard warm-up, whatever this worker
    has executed in the meantime.  It is used to confirm every violation
    found by the (fast, in-worker) first execution and for every
    re-execution made while shrinking.
    """

    def __init__(self, timeout=600):
        import faulthandler
        req_r, req_w = os.pipe()
        res_r, res_w = os.pipe()
        pid = os.fork()
        if pid == 0:
            try:
                os.close(req_w)
                os.close(res_r)
                while True:
                    msg = _read_frame(req_r)
                    if msg is None:
                        break
                    key, plan = msg
                    gpid = os.fork()
                    if gpid == 0:
                        code = 3
                        try:
                            faulthandler.dump_traceback_later(timeout,
                                                              exit=True)
                            res = execute(MACHINE_FACTORY(key), plan)
                            slim = {k: res[k] for k in (
                                'verdict', 'violation', 'error', 'steps',
                                'digest')}
                            _write_frame(res_w, slim)
                            code = 0
                        finally:
                            os._exit(code)
                    _, status = os.waitpid(gpid, 0)
                    if status != 0:
                        _write_frame(res_w, {
                            'verdict': 'HARNESS', 'violation': None,
                            'error': 'isolated execution ended without a '
                                     f'result (wait status {status})',
                            'steps': 0, 'digest': ''})
            finally:
                os._exit(0)
        os.close(req_r)
        os.close(res_w)
        self.pid, self.req_w, self.res_r = pid, req_w, res_r

    def execute(self, key, plan):
        _write_frame(self.req_w, (key, plan))
        res = _read_frame(self.res_r)
        if res is None:
            return {'verdict': 'HARNESS', 'violation': None,
                    'error': 'zygote process died', 'steps': 0,
                    'digest': ''}
        return res


_ZYGOTE = None


def zygote():
    """The zygote of this worker; must first be called before the worker
    executes anything."""
    global _ZYGOTE
    if _ZYGOTE is None or _ZYGOTE[0] != os.getpid():
        _ZYGOTE = (os.getpid(), Zygote())
    return _ZYGOTE[1]


def execute_isolated(machine: Machine, plan: dict) -> dict:
    """execute() in a forked child, so that re-executions (shrinking) cannot
    see library state left behind by earlier executions in this process."""
    import pickle
    r, w = os.pipe()
    pid = os.fork()
    if pid == 0:
        code = 0
        try:
            os.close(r)
            res = execute(machine, plan)
            slim = {k: res[k] for k in ('verdict', 'violation', 'error',
                                        'steps', 'digest')}
            with os.fdopen(w, 'wb') as fh:
                pickle.dump(slim, fh, protocol=4)
        except BaseException:  # noqa: BLE001
            code = 3
        finally:
            os._exit(code)
    os.close(w)
    with os.fdopen(r, 'rb') as fh:
        blob = fh.read()
    os.waitpid(pid, 0)
    try:
        return pickle.loads(blob)
    except Exception:  # noqa: BLE001
        return {'verdict': 'HARNESS', 'violation': None,
                'error': 'isolated execution ended without a result',
                'steps': 0, 'digest': ''}


# --------------------------------------------------------------------------
# shrinking
# --------------------------------------------------------------------------
def same_class(a, b) -> bool:
    return (a is not None and b is not None
            and a['invariant'] == b['invariant']
            and a['subject'] == b['subject'])


def shrink(machine: Machine, plan: dict, viol: dict, budget: int = 300,
           deadline: float | None = None, run=None) -> tuple[dict, dict, int]:
    """Minimise ``plan`` while the same violation class persists.

    Returns (plan, violation, executions used).
    """
    used = 0
    best = json.loads(json.dumps(plan))
    best_v = viol

    def attempt(cand):
        nonlocal used, best, best_v
        if used >= budget or (deadline and time.time() > deadline):
            return False
        used += 1
        r = run(cand) if run is not None else execute_isolated(machine,
                                                                 cand)
        if r['verdict'] == 'VIOLATION' and same_class(r['violation'], viol):
            best = cand
            best_v = r['violation']
            return True
        return False

    def with_ops(ops):
        c = dict(best)
        c['ops'] = ops
        return c

    # (1) truncate after the failing step
    step = best_v.get('step', len(best['ops']))
    if 0 <= step < len(best['ops']):
        attempt(with_ops(best['ops'][:step]))

    # (2) ddmin over the op list
    n = 2
    while len(best['ops']) >= 1 and used < budget:
        ops = best['ops']
        if len(ops) == 1:
            attempt(with_ops([]))
            break
        chunk = max(1, len(ops) // n)
        reduced = False
        i = 0
        while i < len(ops):
            cand = ops[:i] + ops[i + chunk:]
            if attempt(with_ops(cand)):
                ops = best['ops']
                reduced = True
                n = max(n - 1, 2)
            else:
                i += chunk
            if used >= budget:
                break
        if not reduced:
            if chunk == 1:
                break
            n = min(len(ops), n * 2)

    # (3) simplify single ops
    changed = True
    rounds = 0
    while changed and used < budget and rounds < 3:
        changed = False
        rounds += 1
        for i in range(len(best['ops'])):
            for simpler in machine.simpler_ops(best['ops'][i]):
                cand_ops = list(best['ops'])
                cand_ops[i] = jsonable(simpler)
                if attempt(with_ops(cand_ops)):
                    changed = True
                    break

    # (4) simplify the scene
    changed = True
    rounds = 0
    while changed and used < budget and rounds < 6:
        changed = False
        rounds += 1
        for cand in machine.simpler_scenes(best):
            if attempt(jsonable(cand)):
                changed = True
                break
    return best, best_v, used


# --------------------------------------------------------------------------
# known findings
# --------------------------------------------------------------------------
def load_known(path=None):
    path = path or os.path.join(VERIF, 'known_findings.txt')
    known, fixed = [], []
    if not os.path.exists(path):
        return known, fixed
    with open(path) as fh:
        for line in fh:
            line = line.strip()
            if not line or line.startswith('#'):
                continue
            if line.startswith('known:'):
                body = line[len('known:'):].strip()
                head, _, m = body.partition(' match=')
                fields = {}
                # property=Cxx id=slug what="..."
                import shlex
                for tok in shlex.split(head):
                    k, _, v = tok.partition('=')
                    fields[k] = v
                fields['match'] = json.loads(m) if m else {}
                known.append(fields)
            elif line.startswith('fixed:'):
                fixed.append(line)
    return known, fixed


def _op_matches(op, pat) -> bool:
    if '$any' in pat:
        return any(_op_matches(op, p) for p in pat['$any'])
    for k, v in pat.items():
        if k not in op:
            return False
        if isinstance(v, dict) and isinstance(op[k], dict):
            if not _op_matches(op[k], v):
                return False
        elif isinstance(v, list) and not isinstance(op[k], list):
            if op[k] not in v:
                return False
        elif op[k] != v:
            return False
    return True


def match_known(known, pid, plan, viol):
    """Return the first known-finding record matching the minimised plan."""
    for rec in known:
        if rec.get('property') != pid:
            continue
        m = rec['match']
        if 'machine' in m and m['machine'] != plan.get('machine'):
            continue
        if 'invariant' in m and m['invariant'] != viol['invariant']:
            continue
        if 'subject' in m:
            subj = m['subject']
            subj = subj if isinstance(subj, list) else [subj]
            if viol['subject'] not in subj:
                continue
        if 'cfg' in m and not _op_matches(plan.get('cfg', {}), m['cfg']):
            continue
        pats = m.get('ops', [])
        j = 0
        for op in plan['ops']:
            if j < len(pats) and _op_matches(op, pats[j]):
                j += 1
        if j < len(pats):
            continue
        if 'max_ops' in m and len(plan['ops']) > m['max_ops']:
            continue
        return rec
    return None


# --------------------------------------------------------------------------
# worker task (runs inside a forked worker process)
# --------------------------------------------------------------------------
def run_chunk(machine: Machine, base_seed: int, indices, avoid_frac_known,
              known, shrink_budget, keep_samples, run_timeout,
              ops_scale=1.0, machine_key=None):
    """Run the seeds of one chunk; confirm, shrink and classify violations.

    Two isolation modes (``machine.isolate_runs``):

    * False (default): the first execution of a seed happens in this
      worker.  Whatever it reports other than OK is re-executed through the
      worker's zygote - a child forked before this worker executed
      anything, which runs each plan in a fresh grandchild - and only
      counts if it reproduces there; shrinking re-executes through the
      zygote too.  Library state leaking from one run into the next can thus
      never create a reported violation or a harness error, and a reported
      plan is a function of its content and the code only.
    * True (C10 fault tier, where injected exceptions may corrupt
      process-global state): the first execution itself happens in a forked
      child of this worker.
    """
    import faulthandler
    import pickle
    out = []
    key = machine_key or machine.pid
    zyg = zygote()          # forked now, while this worker is still clean
    iso = bool(getattr(machine, 'isolate_runs', False))
    open_ids = [k['id'] for k in known if k.get('property') == machine.pid]

    def isolated(plan):
        return zyg.execute(key, plan)

    for i in indices:
        seed = derive(base_seed, machine.pid, i)
        # ~70 % of runs avoid the triggers of open known findings
        avoid = ()
        if open_ids and (derive(seed, 'avoid') % 100) < avoid_frac_known:
            avoid = tuple(open_ids)
        t0 = time.time()
        if iso:
            r, w = os.pipe()
            pid = os.fork()
            if pid == 0:                      # child: one run, then exit
                code = 0
                try:
                    os.close(r)
                    faulthandler.dump_traceback_later(run_timeout, exit=True)
                    plan, res = run_seed_soft(machine, seed, avoid,
                                              ops_scale, run_timeout / 3)
                    faulthandler.cancel_dump_traceback_later()
                    res['plan'] = plan
                    with os.fdopen(w, 'wb') as fh:
                        pickle.dump(res, fh, protocol=4)
                except BaseException:  # noqa: BLE001
                    code = 3
                finally:
                    os._exit(code)
            os.close(w)
            with os.fdopen(r, 'rb') as fh:
                blob = fh.read()
            _, status = os.waitpid(pid, 0)
            try:
                res = pickle.loads(blob)
            except Exception:  # noqa: BLE001
                res = {'verdict': 'HARNESS', 'seed': seed,
                       'machine': machine.name, 'nops': 0, 'steps': 0,
                       'faults': {}, 'probes': {}, 'sim_time': 0.0,
                       'sigs': [], 'extra': {}, 'sig': '',
                       'nontrivial': False, 'digest': '', 'violation': None,
                       'error': f'run of seed {seed} (index {i}) ended '
                                f'without a result, wait status {status} '
                                '(per-run timeout or crash)'}
        else:
            faulthandler.dump_traceback_later(run_timeout, exit=True)
            plan, res = run_seed_soft(machine, seed, avoid, ops_scale,
                                      run_timeout / 3)
            faulthandler.cancel_dump_traceback_later()
            res['plan'] = plan
        res['index'] = i
        res['avoid'] = list(avoid)
        if res['verdict'] in ('VIOLATION', 'HARNESS') and 'plan' in res \
                and res['plan'].get('ops') is not None:
            # confirm from a clean state
            conf = isolated(res['plan'])
            if res['verdict'] == 'VIOLATION':
                if not (conf['verdict'] == 'VIOLATION' and same_class(
                        conf['violation'], res['violation'])):
                    res['unconfirmed'] = res['violation']
                    res['verdict'] = ('HARNESS' if conf['verdict']
                                      == 'HARNESS' else 'UNCONFIRMED')
                    res['error'] = conf.get('error')
            elif 'Inapplicable during generation' in (res.get('error')
                                                       or ''):
                pass        # a generator bug, whatever a replay says
            elif conf['verdict'] != 'HARNESS':
                # the harness error was an artefact of earlier runs
                res['unconfirmed'] = {'invariant': 'harness', 'subject': '',
                                      'detail': (res.get('error') or '')[
                                          -400:]}
                res['verdict'] = 'UNCONFIRMED'
        if res['verdict'] == 'VIOLATION':
            mplan, mviol, used = shrink(machine, res['plan'],
                                        res['violation'],
                                        budget=shrink_budget,
                                        deadline=time.time()
                                        + run_timeout * 15, run=isolated)
            res['shrink_execs'] = used
            res['min_plan'] = mplan
            res['min_violation'] = mviol
            rec = match_known(known, machine.pid, mplan, mviol)
            if rec is not None:
                res['verdict'] = 'KNOWN'
                res['known_id'] = rec['id']
        if not (res['verdict'] == 'HARNESS' or (
                i < keep_samples and res.get('nontrivial')
                and res['verdict'] == 'OK')):
            res.pop('plan', None)
        res['wall'] = time.time() - t0
        out.append(res)
    return out
