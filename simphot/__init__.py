"""simphot: deterministic simulation with fault injection for photutils.

See /verif/DESIGN.md.  Every run is a pure function of one integer seed and
the code; every replay file is a pure function of its content and the code.
"""
